"""Metamorphic test of the checkers: mechanical, exactly behaviour-preserving
rewrites applied to EVERY function of the hand-written modules at once.

  /venv/bin/python tools/metamorph.py [-t swap,mirror,...] [-m response,sigver]
                                      [--tests] [--bisect] [-j 8]

For each selected transformation a scratch git worktree of /repo is created, the
hand-written modules are rewritten (ast -> transform -> ast.unparse, so layout and
comments change as well: every run is also a "reformat" test), byte-compiled, and
all 19 checks run on it with VERIF_REPO=<scratch>.  Every check must exit 0: the
transformations do not change behaviour, so any VIOLATION / ANALYSIS-ERROR is a
defect of a rule or of the normal-form layers (DESIGN 7.7).  With --tests the pinned
test suite is run on the rewritten tree as well (validates the transformer itself:
the pass count must stay 308/315).  With --bisect a transformation that raises an
alarm is re-run module by module to name the module(s) responsible.

Transformations (each exact, see the function's docstring for the side condition):
  reformat     ast.unparse only
  swap         if c: A else: B        ->  if not (c): B else: A
  mirror       a == b / a < b         ->  b == a / b > a        (side-effect-free operands)
  temptest     if c: / while-free     ->  _mm_t = c; if _mm_t:
  tempret      return e               ->  _mm_r = e; return _mm_r
  temparg      f(e, ...) statement    ->  _mm_a = e; f(_mm_a, ...)   (first argument, callee expression is a name/attribute chain)
  rename       local x                ->  x_mm                     (functions without nested scopes / locals())
  flatten      if c: ...jump else: B  ->  if c: ...jump; B
  andsplit     if a and b: X          ->  if a: if b: X            (no else)
  inlinetemp   t = <pure>; stmt(t)    ->  stmt(<pure>)             (single use, first thing evaluated, unconditional)
  kwargs       f(a, b)                ->  f(a, p=b)                (callee name unique in the package, plain parameters)
  guard        if c: BODY  (last stmt)  ->  if not (c): return; BODY
  demorgan     not (a and b) in tests   ->  not a or not b
  ifexp        if c: x = a else: x = b  ->  x = a if c else b      (same for return)
  unnest       if a: if b: X            ->  if a and b: X
  loop2comp    x = []; for..: x.append  ->  x = [.. for ..]
  reorder      a = <pure>; b = <pure>   ->  b = ...; a = ...        (independent, names/constants only)
  elsereturn   if c: ..jump; REST       ->  if c: ..jump else: REST
  returnnone   return                   <-> return None
  intuple      x in [a, b]              <-> x in (a, b)
  isinstancetuple  isinstance(a, X) or isinstance(a, Y) <-> isinstance(a, (X, Y))
  dictcall     {"k": v}                 ->  dict(k=v)
  constname    f(x, "lit")              ->  _mm_c = "lit"; f(x, _mm_c)
  comp2loop    x = [e for v in it]      ->  x = []; for v in it: x.append(e)

`-t a+b+c` applies several transformations one after the other to the same tree.

Development tool, not a registered check; scratch trees are removed.
"""
import argparse
import ast
import copy
import json
import os
import re
import shutil
import subprocess
import sys
import tempfile
import warnings
from concurrent.futures import ThreadPoolExecutor

warnings.simplefilter("ignore")
VERIF = os.path.dirname(os.path.dirname(os.path.abspath(__file__)))
sys.path.insert(0, VERIF)
PY = "/venv/bin/python"
ALL = ["C01", "C02", "C03", "C04", "C05", "C06", "C07", "C09", "C10", "C11",
       "C12", "C13", "C14", "C15", "C16", "C17", "C18", "C19", "C20"]
PKG = "src/saml2_tophat"


# ------------------------------------------------------------------ helpers
def _funcs(tree):
    return [n for n in ast.walk(tree)
            if isinstance(n, (ast.FunctionDef, ast.AsyncFunctionDef))]


def _blocks(node):
    """every statement list below node that belongs to node's own function
    (nested defs are visited separately)"""
    out = []
    stack = [node]
    while stack:
        n = stack.pop()
        for field in ("body", "orelse", "finalbody"):
            blk = getattr(n, field, None)
            if isinstance(blk, list) and blk and isinstance(blk[0], ast.stmt):
                out.append(blk)
                for s in blk:
                    if not isinstance(s, (ast.FunctionDef, ast.ClassDef,
                                          ast.AsyncFunctionDef)):
                        stack.append(s)
        if isinstance(n, ast.Try):
            for h in n.handlers:
                out.append(h.body)
                for s in h.body:
                    if not isinstance(s, (ast.FunctionDef, ast.ClassDef,
                                          ast.AsyncFunctionDef)):
                        stack.append(s)
    return out


def _names(node):
    return {n.id for n in ast.walk(node) if isinstance(n, ast.Name)} | \
        {a.arg for a in ast.walk(node) if isinstance(a, ast.arg)}


def _pure(e):
    """no call, no subscript, nothing that runs user code or can change state:
    names, constants, attribute chains and operators over them"""
    for n in ast.walk(e):
        if isinstance(n, (ast.Call, ast.Subscript, ast.Await, ast.Yield,
                          ast.YieldFrom, ast.NamedExpr, ast.Lambda,
                          ast.ListComp, ast.SetComp, ast.DictComp,
                          ast.GeneratorExp, ast.Starred)):
            return False
    return True


def _ends_in_jump(stmts):
    if not stmts:
        return False
    s = stmts[-1]
    if isinstance(s, (ast.Return, ast.Raise, ast.Continue, ast.Break)):
        return True
    if isinstance(s, ast.If) and s.orelse:
        return _ends_in_jump(s.body) and _ends_in_jump(s.orelse)
    return False


class Ctx(object):
    def __init__(self):
        self.n = 0
        self.count = 0

    def fresh(self, prefix, taken):
        while True:
            self.n += 1
            nm = "_mm_%s%d" % (prefix, self.n)
            if nm not in taken:
                return nm


# ------------------------------------------------------------ transformations
def t_reformat(tree, ctx, model=None):
    ctx.count += 1


def t_swap(tree, ctx, model=None):
    """exact: `not (c)` is truthy exactly when c is falsy; c is evaluated once
    at the same point"""
    for n in ast.walk(tree):
        if isinstance(n, ast.If) and n.orelse:
            n.test = ast.UnaryOp(op=ast.Not(), operand=n.test)
            n.body, n.orelse = n.orelse, n.body
            ctx.count += 1


_MIRROR = {ast.Eq: ast.Eq, ast.NotEq: ast.NotEq, ast.Is: ast.Is,
           ast.IsNot: ast.IsNot, ast.Lt: ast.Gt, ast.Gt: ast.Lt,
           ast.LtE: ast.GtE, ast.GtE: ast.LtE}


def t_mirror(tree, ctx, model=None):
    """exact for == / != between operands whose evaluation has no effect when
    both are names / constants / attribute chains - the reflected __eq__ of
    the built-in and package types compared here is symmetric; `is` always"""
    for n in ast.walk(tree):
        if isinstance(n, ast.Compare) and len(n.ops) == 1 and \
                type(n.ops[0]) in _MIRROR and _pure(n.left) and \
                _pure(n.comparators[0]) and (
                    isinstance(n.left, ast.Constant) or
                    isinstance(n.comparators[0], ast.Constant) or
                    isinstance(n.ops[0], (ast.Is, ast.IsNot)) or
                    (isinstance(n.left, ast.Name) and
                     isinstance(n.comparators[0], ast.Name))):
            # ordering comparisons and ==: only between plain values (a name
            # against a constant / name), where the reflected operation is
            # the same relation
            n.left, n.comparators[0] = n.comparators[0], n.left
            n.ops[0] = _MIRROR[type(n.ops[0])]()
            ctx.count += 1


def t_temptest(tree, ctx, model=None):
    """exact: the test is evaluated once, at the same point, into a fresh
    name nobody else reads"""
    for fn in _funcs(tree):
        taken = _names(fn)
        for blk in _blocks(fn):
            i = 0
            while i < len(blk):
                s = blk[i]
                if isinstance(s, ast.If) and not isinstance(s.test, ast.Name):
                    nm = ctx.fresh("t", taken)
                    taken.add(nm)
                    a = ast.Assign(targets=[ast.Name(id=nm, ctx=ast.Store())],
                                   value=s.test, lineno=s.lineno)
                    s.test = ast.Name(id=nm, ctx=ast.Load())
                    blk.insert(i, a)
                    ctx.count += 1
                    i += 1
                i += 1


def t_tempret(tree, ctx, model=None):
    for fn in _funcs(tree):
        taken = _names(fn)
        for blk in _blocks(fn):
            i = 0
            while i < len(blk):
                s = blk[i]
                if isinstance(s, ast.Return) and s.value is not None and \
                        not isinstance(s.value, (ast.Name, ast.Constant)):
                    nm = ctx.fresh("r", taken)
                    taken.add(nm)
                    blk.insert(i, ast.Assign(
                        targets=[ast.Name(id=nm, ctx=ast.Store())],
                        value=s.value, lineno=s.lineno))
                    s.value = ast.Name(id=nm, ctx=ast.Load())
                    ctx.count += 1
                    i += 1
                i += 1


def _chain(e):
    while isinstance(e, ast.Attribute):
        e = e.value
    return isinstance(e, ast.Name)


def t_temparg(tree, ctx, model=None):
    """exact: the callee expression is a name / attribute chain (a load), the
    first positional argument is what is evaluated next"""
    for fn in _funcs(tree):
        taken = _names(fn)
        for blk in _blocks(fn):
            i = 0
            while i < len(blk):
                s = blk[i]
                c = None
                if isinstance(s, ast.Expr) and isinstance(s.value, ast.Call):
                    c = s.value
                elif isinstance(s, ast.Assign) and len(s.targets) == 1 and \
                        isinstance(s.targets[0], ast.Name) and \
                        isinstance(s.value, ast.Call):
                    c = s.value
                elif isinstance(s, ast.Return) and \
                        isinstance(s.value, ast.Call):
                    c = s.value
                if c is not None and c.args and _chain(c.func) and \
                        not isinstance(c.args[0], (ast.Name, ast.Constant,
                                                   ast.Starred)) and \
                        not (isinstance(c.func, ast.Name) and
                             c.func.id in ("super", "locals", "vars")):
                    nm = ctx.fresh("a", taken)
                    taken.add(nm)
                    blk.insert(i, ast.Assign(
                        targets=[ast.Name(id=nm, ctx=ast.Store())],
                        value=c.args[0], lineno=s.lineno))
                    c.args[0] = ast.Name(id=nm, ctx=ast.Load())
                    ctx.count += 1
                    i += 1
                i += 1


class _Rename(ast.NodeTransformer):
    def __init__(self, mp):
        self.mp = mp

    def visit_Name(self, n):
        if n.id in self.mp:
            n.id = self.mp[n.id]
        return n

    def visit_ExceptHandler(self, n):
        if n.name in self.mp:
            n.name = self.mp[n.name]
        self.generic_visit(n)
        return n


def t_rename(tree, ctx, model=None):
    """exact: consistent capture-free renaming of a function's own local
    variables (not parameters); functions with nested scopes, global/nonlocal
    declarations or locals()/vars()/eval/exec are left alone"""
    for fn in _funcs(tree):
        inner = [n for n in ast.walk(fn) if n is not fn and isinstance(
            n, (ast.FunctionDef, ast.AsyncFunctionDef, ast.Lambda, ast.ClassDef,
                ast.ListComp, ast.SetComp, ast.DictComp, ast.GeneratorExp,
                ast.Global, ast.Nonlocal))]
        if inner:
            continue
        if any(isinstance(n, ast.Call) and isinstance(n.func, ast.Name) and
               n.func.id in ("locals", "vars", "eval", "exec", "dir")
               for n in ast.walk(fn)):
            continue
        params = {a.arg for a in ast.walk(fn.args) if isinstance(a, ast.arg)}
        stored = {n.id for n in ast.walk(fn) if isinstance(n, ast.Name) and
                  isinstance(n.ctx, (ast.Store, ast.Del))}
        stored |= {h.name for h in ast.walk(fn)
                   if isinstance(h, ast.ExceptHandler) and h.name}
        imported = {(a.asname or a.name).split(".")[0] for n in ast.walk(fn)
                    if isinstance(n, (ast.Import, ast.ImportFrom))
                    for a in n.names}
        locs = stored - params - imported
        allnames = _names(fn)
        mp = {}
        for x in sorted(locs):
            new = x + "_mm"
            if new in allnames:
                continue
            mp[x] = new
        if mp:
            _Rename(mp).visit(fn)
            ctx.count += len(mp)


def t_flatten(tree, ctx, model=None):
    """exact: after a branch that always jumps, `else:` is redundant"""
    for fn in _funcs(tree):
        for blk in _blocks(fn):
            i = 0
            while i < len(blk):
                s = blk[i]
                if isinstance(s, ast.If) and s.orelse and \
                        _ends_in_jump(s.body):
                    rest = s.orelse
                    s.orelse = []
                    blk[i + 1:i + 1] = rest
                    ctx.count += 1
                i += 1


def t_andsplit(tree, ctx, model=None):
    """exact without an else branch: b is evaluated only when a is truthy"""
    for n in ast.walk(tree):
        if isinstance(n, ast.If) and not n.orelse and \
                isinstance(n.test, ast.BoolOp) and \
                isinstance(n.test.op, ast.And) and len(n.test.values) == 2:
            a, b = n.test.values
            inner = ast.If(test=b, body=n.body, orelse=[])
            n.test = a
            n.body = [inner]
            ctx.count += 1


def _eval_order(e, out, cond=False):
    """append (node, conditional?) in evaluation order"""
    if isinstance(e, ast.BoolOp):
        _eval_order(e.values[0], out, cond)
        for v in e.values[1:]:
            _eval_order(v, out, True)
        out.append((e, cond))
    elif isinstance(e, ast.IfExp):
        _eval_order(e.test, out, cond)
        _eval_order(e.body, out, True)
        _eval_order(e.orelse, out, True)
        out.append((e, cond))
    elif isinstance(e, (ast.Lambda, ast.ListComp, ast.SetComp, ast.DictComp,
                        ast.GeneratorExp)):
        for x in ast.walk(e):
            if x is not e:
                out.append((x, True))
        out.append((e, cond))
    elif isinstance(e, ast.Compare) and len(e.ops) > 1:
        _eval_order(e.left, out, cond)
        _eval_order(e.comparators[0], out, cond)
        for c in e.comparators[1:]:
            _eval_order(c, out, True)
        out.append((e, cond))
    else:
        for c in ast.iter_child_nodes(e):
            if isinstance(c, (ast.expr, ast.keyword)):
                _eval_order(c.value if isinstance(c, ast.keyword) else c, out,
                            cond)
        out.append((e, cond))


def t_inlinetemp(tree, ctx, model=None):
    """`t = <pure expr>` followed by a statement that reads t exactly once, as
    (part of) the first thing it evaluates and unconditionally, with t read
    nowhere else in the function: substituting the expression is exact"""
    for fn in _funcs(tree):
        loads = {}
        stores = {}
        for n in ast.walk(fn):
            if isinstance(n, ast.Name):
                d = loads if isinstance(n.ctx, ast.Load) else stores
                d[n.id] = d.get(n.id, 0) + 1
        if any(isinstance(n, (ast.Lambda, ast.FunctionDef)) and n is not fn
               for n in ast.walk(fn)):
            continue
        for blk in _blocks(fn):
            i = 0
            while i + 1 < len(blk):
                s, nxt = blk[i], blk[i + 1]
                ok = isinstance(s, ast.Assign) and len(s.targets) == 1 and \
                    isinstance(s.targets[0], ast.Name) and _pure(s.value) and \
                    not isinstance(s.value, ast.Constant)
                if ok:
                    t = s.targets[0].id
                    ok = loads.get(t, 0) == 1 and stores.get(t, 0) == 1
                if ok:
                    if isinstance(nxt, (ast.If, ast.While)):
                        root = nxt.test if isinstance(nxt, ast.If) else None
                    elif isinstance(nxt, (ast.Return, ast.Expr)):
                        root = nxt.value
                    elif isinstance(nxt, ast.Assign) and all(
                            isinstance(x, ast.Name) for x in nxt.targets):
                        root = nxt.value
                    else:
                        root = None
                    ok = root is not None
                if ok:
                    order = []
                    _eval_order(root, order)
                    pos = [k for k, (x, c) in enumerate(order)
                           if isinstance(x, ast.Name) and x.id == t]
                    ok = len(pos) == 1 and not order[pos[0]][1] and not any(
                        isinstance(x, (ast.Call, ast.Subscript, ast.Await))
                        for x, c in order[:pos[0]])
                if ok:
                    val = s.value

                    class Sub(ast.NodeTransformer):
                        def visit_Name(self, n):
                            if n.id == t and isinstance(n.ctx, ast.Load):
                                return copy.deepcopy(val)
                            return n
                    if isinstance(nxt, ast.If):
                        nxt.test = Sub().visit(nxt.test)
                    else:
                        nxt.value = Sub().visit(nxt.value)
                    del blk[i]
                    ctx.count += 1
                    continue
                i += 1


_STD = set(dir(dict)) | set(dir(list)) | set(dir(str)) | set(dir(set)) | \
    set(dir(bytes)) | {"get", "send", "request", "post", "sign", "verify",
                       "open", "close", "read", "write", "load", "loads",
                       "dump", "dumps", "parse", "match", "search", "sub",
                       "compile", "info", "debug", "error", "warning",
                       "exception", "critical", "log", "format", "copy",
                       "deepcopy", "digest", "hexdigest", "update", "new",
                       "encrypt", "decrypt", "group", "groups", "span",
                       "start", "end", "next", "iter", "run", "call", "text",
                       "tostring", "fromstring", "find", "findall", "keys",
                       "values", "items", "store", "set", "delete", "active"}


def t_kwargs(tree, ctx, model=None):
    """exact: the last positional argument of a call whose callee name denotes
    exactly one function of the package (a name no builtin / stdlib type uses)
    is passed by keyword; the parameter is a plain one and no *args follow"""
    if model is None:
        return
    by = {}
    for q, fi in model.funcs.items():
        by.setdefault(fi.name, []).append(fi)
    for n in ast.walk(tree):
        if not isinstance(n, ast.Call) or not n.args or n.keywords is None:
            continue
        if any(isinstance(a, ast.Starred) for a in n.args) or \
                any(k.arg is None for k in n.keywords):
            continue
        f = n.func
        nm = f.id if isinstance(f, ast.Name) else (
            f.attr if isinstance(f, ast.Attribute) else None)
        if nm is None or nm in _STD or nm.startswith("__") or \
                len(by.get(nm, [])) != 1:
            continue
        fi = by[nm][0]
        a = fi.node.args
        if a.vararg or a.posonlyargs:
            continue
        params = [p.arg for p in a.args]
        is_method = bool(fi.cls) and not any(
            isinstance(d, ast.Name) and d.id == "staticmethod"
            for d in fi.node.decorator_list)
        if is_method:
            if isinstance(f, ast.Name):
                continue
            # Class.method(self, ...) passes self explicitly
            if isinstance(f.value, ast.Name) and f.value.id[:1].isupper():
                continue
            params = params[1:]
        elif isinstance(f, ast.Attribute) and not (
                isinstance(f.value, ast.Name) and f.value.id[:1].islower()
                and f.value.id not in ("self", "cls")):
            # module.function(...) only
            continue
        k = len(n.args) - 1
        if k >= len(params) or k < 1:
            continue
        if any(kw.arg == params[k] for kw in n.keywords):
            continue
        v = n.args.pop()
        n.keywords.insert(0, ast.keyword(arg=params[k], value=v))
        ctx.count += 1


def t_guard(tree, ctx, model=None):
    """`if c: BODY` as the LAST statement of a function (no else) ->
    `if not (c): return` + BODY: falling off the end returns None either way"""
    for fn in _funcs(tree):
        if any(isinstance(n, (ast.Yield, ast.YieldFrom)) for n in ast.walk(fn)):
            continue
        s = fn.body[-1]
        if isinstance(s, ast.If) and not s.orelse and len(s.body) >= 1:
            g = ast.If(test=ast.UnaryOp(op=ast.Not(), operand=s.test),
                       body=[ast.Return(value=None)], orelse=[])
            fn.body[-1:] = [g] + s.body
            ctx.count += 1


def t_demorgan(tree, ctx, model=None):
    """not (a and b) -> (not a) or (not b); not (a or b) -> (not a) and (not b):
    same operands evaluated in the same order with the same short-circuit"""
    class T(ast.NodeTransformer):
        def visit_UnaryOp(self, n):
            self.generic_visit(n)
            if isinstance(n.op, ast.Not) and isinstance(n.operand, ast.BoolOp):
                b = n.operand
                op = ast.Or() if isinstance(b.op, ast.And) else ast.And()
                ctx.count += 1
                return ast.copy_location(ast.BoolOp(op=op, values=[
                    ast.UnaryOp(op=ast.Not(), operand=v) for v in b.values]), n)
            return n
    # only in test position (where truthiness, not the value, matters)
    for n in ast.walk(tree):
        if isinstance(n, (ast.If, ast.While)):
            n.test = T().visit(n.test)


def t_ifexp(tree, ctx, model=None):
    """if c: x = a  else: x = b  ->  x = a if c else b   (same for return)"""
    for fn in _funcs(tree):
        for blk in _blocks(fn):
            for i, s in enumerate(blk):
                if not (isinstance(s, ast.If) and len(s.body) == 1 and
                        len(s.orelse) == 1):
                    continue
                a, b = s.body[0], s.orelse[0]
                if isinstance(a, ast.Assign) and isinstance(b, ast.Assign) and \
                        len(a.targets) == 1 and len(b.targets) == 1 and \
                        isinstance(a.targets[0], ast.Name) and \
                        isinstance(b.targets[0], ast.Name) and \
                        a.targets[0].id == b.targets[0].id:
                    blk[i] = ast.copy_location(ast.Assign(
                        targets=[a.targets[0]], value=ast.IfExp(
                            test=s.test, body=a.value, orelse=b.value),
                        lineno=s.lineno), s)
                    ctx.count += 1
                elif isinstance(a, ast.Return) and isinstance(b, ast.Return) \
                        and a.value is not None and b.value is not None:
                    blk[i] = ast.copy_location(ast.Return(value=ast.IfExp(
                        test=s.test, body=a.value, orelse=b.value)), s)
                    ctx.count += 1


def t_unnest(tree, ctx, model=None):
    """if a: (only) if b: X   ->  if a and b: X     (no else on either)"""
    for n in ast.walk(tree):
        if isinstance(n, ast.If) and not n.orelse and len(n.body) == 1 and \
                isinstance(n.body[0], ast.If) and not n.body[0].orelse:
            inner = n.body[0]
            n.test = ast.BoolOp(op=ast.And(), values=[n.test, inner.test])
            n.body = inner.body
            ctx.count += 1


def t_loop2comp(tree, ctx, model=None):
    """x = []; for v in it: [if c:] x.append(e)  ->  x = [e for v in it if c]
    when it / c / e do not mention x and v is not used outside the loop"""
    for fn in _funcs(tree):
        for blk in _blocks(fn):
            i = 0
            while i + 1 < len(blk):
                s, lp = blk[i], blk[i + 1]
                i += 1
                if not (isinstance(s, ast.Assign) and len(s.targets) == 1 and
                        isinstance(s.targets[0], ast.Name) and
                        isinstance(s.value, ast.List) and not s.value.elts and
                        isinstance(lp, ast.For) and not lp.orelse and
                        len(lp.body) == 1):
                    continue
                x = s.targets[0].id
                b = lp.body[0]
                cond = None
                if isinstance(b, ast.If) and not b.orelse and len(b.body) == 1:
                    cond, b = b.test, b.body[0]
                if not (isinstance(b, ast.Expr) and isinstance(b.value, ast.Call)
                        and isinstance(b.value.func, ast.Attribute) and
                        b.value.func.attr == "append" and
                        isinstance(b.value.func.value, ast.Name) and
                        b.value.func.value.id == x and
                        len(b.value.args) == 1 and not b.value.keywords):
                    continue
                e = b.value.args[0]
                parts = [lp.iter, e] + ([cond] if cond is not None else [])
                if any(isinstance(n, ast.Name) and n.id == x
                       for p_ in parts for n in ast.walk(p_)):
                    continue
                if any(isinstance(n, (ast.Yield, ast.YieldFrom, ast.Await,
                                      ast.NamedExpr))
                       for p_ in parts for n in ast.walk(p_)):
                    continue
                tn = {n.id for n in ast.walk(lp.target)
                      if isinstance(n, ast.Name)}
                inside = {id(n) for n in ast.walk(lp)}
                if any(isinstance(n, ast.Name) and n.id in tn and
                       id(n) not in inside for n in ast.walk(fn)):
                    continue
                comp = ast.ListComp(elt=e, generators=[ast.comprehension(
                    target=lp.target, iter=lp.iter,
                    ifs=[cond] if cond is not None else [], is_async=0)])
                s.value = comp
                del blk[i]
                ctx.count += 1


def t_reorder(tree, ctx, model=None):
    """two adjacent assignments `a = <pure>; b = <pure>` to different plain
    names, neither reading the other's target: their order is immaterial"""
    for fn in _funcs(tree):
        for blk in _blocks(fn):
            i = 0
            while i + 1 < len(blk):
                s1, s2 = blk[i], blk[i + 1]
                ok = all(isinstance(s, ast.Assign) and len(s.targets) == 1 and
                         isinstance(s.targets[0], ast.Name) and _pure(s.value)
                         and not any(isinstance(n, ast.Attribute)
                                     for n in ast.walk(s.value))
                         for s in (s1, s2))
                if ok:
                    t1, t2 = s1.targets[0].id, s2.targets[0].id
                    n1 = {n.id for n in ast.walk(s1.value)
                          if isinstance(n, ast.Name)}
                    n2 = {n.id for n in ast.walk(s2.value)
                          if isinstance(n, ast.Name)}
                    ok = t1 != t2 and t1 not in n2 and t2 not in n1
                if ok:
                    blk[i], blk[i + 1] = s2, s1
                    ctx.count += 1
                    i += 2
                else:
                    i += 1


def t_elsereturn(tree, ctx, model=None):
    """if c: ...jump      ->  if c: ...jump
       REST                   else: REST          (inverse of flatten)"""
    for fn in _funcs(tree):
        for blk in _blocks(fn):
            i = 0
            while i < len(blk):
                s = blk[i]
                if isinstance(s, ast.If) and not s.orelse and \
                        _ends_in_jump(s.body) and i + 1 < len(blk) and \
                        not any(isinstance(x, (ast.FunctionDef, ast.ClassDef))
                                for x in blk[i + 1:]):
                    s.orelse = blk[i + 1:]
                    del blk[i + 1:]
                    ctx.count += 1
                i += 1


def t_returnnone(tree, ctx, model=None):
    """bare `return` <-> `return None`"""
    for n in ast.walk(tree):
        if isinstance(n, ast.Return):
            if n.value is None:
                n.value = ast.Constant(value=None)
                ctx.count += 1
            elif isinstance(n.value, ast.Constant) and n.value.value is None:
                n.value = None
                ctx.count += 1


def t_intuple(tree, ctx, model=None):
    """x in [a, b] <-> x in (a, b): membership in a list display and in a
    tuple display compare the same elements in the same order"""
    for n in ast.walk(tree):
        if isinstance(n, ast.Compare) and len(n.ops) == 1 and \
                isinstance(n.ops[0], (ast.In, ast.NotIn)):
            c = n.comparators[0]
            if isinstance(c, ast.List) and c.elts:
                n.comparators[0] = ast.Tuple(elts=c.elts, ctx=ast.Load())
                ctx.count += 1
            elif isinstance(c, ast.Tuple) and c.elts:
                n.comparators[0] = ast.List(elts=c.elts, ctx=ast.Load())
                ctx.count += 1


def t_isinstancetuple(tree, ctx, model=None):
    """isinstance(a, X) or isinstance(a, Y) -> isinstance(a, (X, Y)) for a
    plain name a; and the other way round"""
    class T(ast.NodeTransformer):
        def visit_BoolOp(self, n):
            self.generic_visit(n)
            if isinstance(n.op, ast.Or) and len(n.values) == 2 and all(
                    isinstance(v, ast.Call) and isinstance(v.func, ast.Name)
                    and v.func.id == "isinstance" and len(v.args) == 2 and
                    isinstance(v.args[0], ast.Name) and
                    isinstance(v.args[1], (ast.Name, ast.Attribute))
                    for v in n.values) and \
                    n.values[0].args[0].id == n.values[1].args[0].id:
                ctx.count += 1
                return ast.copy_location(ast.Call(
                    func=ast.Name(id="isinstance", ctx=ast.Load()),
                    args=[n.values[0].args[0], ast.Tuple(
                        elts=[n.values[0].args[1], n.values[1].args[1]],
                        ctx=ast.Load())], keywords=[]), n)
            return n

        def visit_Call(self, n):
            self.generic_visit(n)
            if isinstance(n.func, ast.Name) and n.func.id == "isinstance" and \
                    len(n.args) == 2 and isinstance(n.args[0], ast.Name) and \
                    isinstance(n.args[1], ast.Tuple) and \
                    len(n.args[1].elts) == 2:
                ctx.count += 1
                return ast.copy_location(ast.BoolOp(op=ast.Or(), values=[
                    ast.Call(func=ast.Name(id="isinstance", ctx=ast.Load()),
                             args=[copy.deepcopy(n.args[0]), e], keywords=[])
                    for e in n.args[1].elts]), n)
            return n
    T().visit(tree)


def t_dictcall(tree, ctx, model=None):
    """{"k": v, ...} with identifier string keys -> dict(k=v, ...)"""
    import keyword

    class T(ast.NodeTransformer):
        def visit_Dict(self, n):
            self.generic_visit(n)
            if n.keys and all(
                    isinstance(k, ast.Constant) and isinstance(k.value, str)
                    and k.value.isidentifier() and
                    not keyword.iskeyword(k.value) for k in n.keys) and \
                    len({k.value for k in n.keys}) == len(n.keys):
                ctx.count += 1
                return ast.copy_location(ast.Call(
                    func=ast.Name(id="dict", ctx=ast.Load()), args=[],
                    keywords=[ast.keyword(arg=k.value, value=v)
                              for k, v in zip(n.keys, n.values)]), n)
            return n
    for fn in _funcs(tree):
        if "dict" in _names(fn):
            continue
        T().visit(fn)


def t_constname(tree, ctx, model=None):
    """a string constant passed as an argument of a call statement gets a
    name first: f(x, "lit") -> _mm_c = "lit"; f(x, _mm_c)"""
    for fn in _funcs(tree):
        taken = _names(fn)
        for blk in _blocks(fn):
            i = 0
            while i < len(blk):
                s = blk[i]
                c = s.value if isinstance(s, (ast.Expr, ast.Assign, ast.Return)) \
                    and isinstance(getattr(s, "value", None), ast.Call) else None
                if c is not None and not (isinstance(c.func, ast.Attribute) and
                                          isinstance(c.func.value, ast.Name) and
                                          c.func.value.id in ("logger",
                                                              "logging")):
                    for k, a in enumerate(c.args):
                        if isinstance(a, ast.Constant) and \
                                isinstance(a.value, str) and len(a.value) > 2:
                            nm = ctx.fresh("c", taken)
                            taken.add(nm)
                            blk.insert(i, ast.Assign(
                                targets=[ast.Name(id=nm, ctx=ast.Store())],
                                value=a, lineno=s.lineno))
                            c.args[k] = ast.Name(id=nm, ctx=ast.Load())
                            ctx.count += 1
                            i += 1
                            break
                i += 1


def t_comp2loop(tree, ctx, model=None):
    """x = [e for v in it if c]  ->  x = []; for v in it: if c: x.append(e)
    when v is not a name of the function outside the comprehension"""
    for fn in _funcs(tree):
        for blk in _blocks(fn):
            i = 0
            while i < len(blk):
                s = blk[i]
                if isinstance(s, ast.Assign) and len(s.targets) == 1 and \
                        isinstance(s.targets[0], ast.Name) and \
                        isinstance(s.value, ast.ListComp) and \
                        len(s.value.generators) == 1 and \
                        not s.value.generators[0].is_async:
                    g = s.value.generators[0]
                    x = s.targets[0].id
                    tn = {n.id for n in ast.walk(g.target)
                          if isinstance(n, ast.Name)}
                    inside = {id(n) for n in ast.walk(s.value)}
                    clash = any(isinstance(n, ast.Name) and n.id in tn and
                                id(n) not in inside for n in ast.walk(fn)) or \
                        any(a.arg in tn for a in ast.walk(fn)
                            if isinstance(a, ast.arg))
                    reads_x = any(isinstance(n, ast.Name) and n.id == x
                                  for n in ast.walk(s.value))
                    if not clash and not reads_x:
                        body = [ast.Expr(value=ast.Call(func=ast.Attribute(
                            value=ast.Name(id=x, ctx=ast.Load()), attr="append",
                            ctx=ast.Load()), args=[s.value.elt], keywords=[]))]
                        for cnd in reversed(g.ifs):
                            body = [ast.If(test=cnd, body=body, orelse=[])]
                        for n in ast.walk(g.target):
                            if isinstance(n, (ast.Name, ast.Tuple, ast.List)):
                                n.ctx = ast.Store()
                        loop = ast.For(target=g.target, iter=g.iter, body=body,
                                       orelse=[], lineno=s.lineno)
                        s.value = ast.List(elts=[], ctx=ast.Load())
                        blk.insert(i + 1, loop)
                        ctx.count += 1
                        i += 1
                i += 1


TRANSFORMS = {"reformat": t_reformat, "swap": t_swap, "mirror": t_mirror,
              "temptest": t_temptest, "tempret": t_tempret,
              "temparg": t_temparg, "rename": t_rename, "flatten": t_flatten,
              "andsplit": t_andsplit, "inlinetemp": t_inlinetemp,
              "kwargs": t_kwargs, "guard": t_guard, "demorgan": t_demorgan,
              "ifexp": t_ifexp, "unnest": t_unnest, "loop2comp": t_loop2comp,
              "reorder": t_reorder, "elsereturn": t_elsereturn,
              "returnnone": t_returnnone, "intuple": t_intuple,
              "isinstancetuple": t_isinstancetuple, "dictcall": t_dictcall,
              "constname": t_constname, "comp2loop": t_comp2loop}


# ---------------------------------------------------------------- machinery
def sh(cmd, cwd=None, env=None, timeout=3600):
    p = subprocess.run(cmd, cwd=cwd, env=env, capture_output=True, text=True,
                       timeout=timeout)
    return p.returncode, p.stdout + p.stderr


def hand_written(model):
    from sa import tables
    skip = set(tables.schema_modules(model))
    out = []
    for name, mi in sorted(model.modules.items()):
        if name in skip:
            continue
        out.append((name, mi.relpath))
    return out


def rewrite(wt, mods, tname, model):
    ctx = Ctx()
    changed = []
    for name, rel in mods:
        path = os.path.join(wt, rel)
        src = open(path).read()
        tree = ast.parse(src)
        before = ctx.count
        for one in tname.split("+"):
            TRANSFORMS[one](tree, ctx, model)
            ast.fix_missing_locations(tree)
        if ctx.count == before and "reformat" not in tname:
            continue
        ast.fix_missing_locations(tree)
        new = ast.unparse(tree) + "\n"
        # keep a coding line / future imports intact: unparse keeps them
        with open(path, "w") as fh:
            fh.write(new)
        changed.append(name)
    return ctx.count, changed


def run_one(tname, mods, model, tests=False, props=ALL):
    wt = tempfile.mkdtemp(prefix="verif-mm-", dir="/tmp")
    os.rmdir(wt)
    res = {"transform": tname, "modules": len(mods)}
    try:
        rc, o = sh(["git", "-C", "/repo", "worktree", "add", "-q", "--detach",
                    wt, "HEAD"])
        if rc:
            res["error"] = o
            return res
        n, changed = rewrite(wt, mods, tname, model)
        res["edits"] = n
        res["changed_modules"] = len(changed)
        rc, o = sh([PY, "-W", "ignore", "-m", "compileall", "-q",
                    os.path.join(wt, PKG)])
        res["compiles"] = rc == 0
        if rc:
            res["compile_output"] = o[-400:]
            return res
        if tests:
            env = dict(os.environ, PYTHONPATH=os.path.join(wt, "src"),
                       PYTHONDONTWRITEBYTECODE="1")
            rc, o = sh([PY, "-m", "pytest", "-q", "-p", "no:cacheprovider",
                        "--timeout=900", "--continue-on-collection-errors",
                        "tests"], cwd=wt, env=env)
            mm = re.search(r"(\d+) passed", o)
            res["tests_passed"] = int(mm.group(1)) if mm else None
        env = dict(os.environ, VERIF_REPO=wt, PYTHONDONTWRITEBYTECODE="1")
        alarms = {}

        def chk(p):
            rc, o = sh([PY, "-W", "ignore", "-m", "sa.cli", p, "--tier",
                        "quick", "--no-write"], cwd=VERIF, env=env)
            return p, rc, [l for l in o.splitlines()
                           if l.startswith("  [") or l.startswith("ANALYSIS")]
        with ThreadPoolExecutor(8) as ex:
            for p, rc, lines in ex.map(chk, props):
                if rc != 0:
                    alarms[p] = {"rc": rc, "lines": lines[:8]}
        res["alarms"] = alarms
    finally:
        sh(["git", "-C", "/repo", "worktree", "remove", "--force", wt])
        shutil.rmtree(wt, ignore_errors=True)
    return res


def main():
    ap = argparse.ArgumentParser()
    ap.add_argument("-t", default=",".join(TRANSFORMS))
    ap.add_argument("-m", default="")
    ap.add_argument("--tests", action="store_true")
    ap.add_argument("--bisect", action="store_true")
    ap.add_argument("-j", type=int, default=2)
    ap.add_argument("--json", default="")
    a = ap.parse_args()
    os.environ.pop("VERIF_REPO", None)
    from sa import srcmodel
    model = srcmodel.Model()
    mods = hand_written(model)
    if a.m:
        want = set(a.m.split(","))
        mods = [(n, r) for n, r in mods
                if n.rsplit(".", 1)[-1] in want or n in want]
    names = [t for t in a.t.split(",") if t]
    results = []
    with ThreadPoolExecutor(a.j) as ex:
        for r in ex.map(lambda t: run_one(t, mods, model, a.tests), names):
            results.append(r)
            al = r.get("alarms")
            print("%-10s edits=%-5s modules=%-3s compiles=%s%s alarms=%s" % (
                r["transform"], r.get("edits"), r.get("changed_modules"),
                r.get("compiles"),
                " tests=%s" % r.get("tests_passed") if a.tests else "",
                sorted(al) if al else ("none" if al is not None else
                                       r.get("error") or
                                       r.get("compile_output"))))
            for p, d in sorted((al or {}).items()):
                for l in d["lines"][:6]:
                    print("      %s %s" % (p, l.strip()[:230]))
            sys.stdout.flush()
    if a.bisect:
        for r in list(results):
            if not r.get("alarms"):
                continue
            props = sorted(r["alarms"])
            print("bisect %s over %d modules (%s)" % (r["transform"], len(mods),
                                                      props))
            with ThreadPoolExecutor(a.j) as ex:
                for (name, rel), rr in zip(mods, ex.map(
                        lambda mr: run_one(r["transform"], [mr], model,
                                           False, props), mods)):
                    if rr.get("alarms"):
                        print("   %-10s %-40s %s" % (
                            r["transform"], name, sorted(rr["alarms"])))
                        for p, d in sorted(rr["alarms"].items()):
                            for l in d["lines"][:4]:
                                print("        %s %s" % (p, l.strip()[:230]))
                    sys.stdout.flush()
    if a.json:
        with open(a.json, "w") as fh:
            json.dump(results, fh, indent=1)
    bad = sum(1 for r in results if r.get("alarms") or not r.get("compiles"))
    print("%d transformations, %d with alarms" % (len(results), bad))
    return 1 if bad else 0


if __name__ == "__main__":
    sys.exit(main())
