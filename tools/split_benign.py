"""Split every benign/<name>/patch.diff into per-function sub-patches and run the
checks on each that still yields a consistent program.

  /venv/bin/python tools/split_benign.py [-k B01] [-j 8]

A sub-patch = all hunks of one patch whose hunk header names the same enclosing
function/class (git's @@ ... @@ context) in the same file.  A sub-patch is kept only
if it applies to /repo HEAD on its own, the touched files byte-compile and no name
becomes undefined in them (symtable/ast scan) - partial application of a rename or
of a helper extraction is not behaviour-preserving and is skipped.  Every check
must exit 0 on each kept sub-patch.  Scratch trees live under a temp dir and are
removed.  This multiplies the benign corpus into many small, differently composed
trees; it is a development tool, not a registered check.
"""
import argparse
import ast
import builtins
import glob
import os
import re
import shutil
import subprocess
import sys
import tempfile
import warnings
warnings.simplefilter("ignore")
from concurrent.futures import ThreadPoolExecutor

VERIF = os.path.dirname(os.path.dirname(os.path.abspath(__file__)))
PY = "/venv/bin/python"
ALL = ["C01", "C02", "C03", "C04", "C05", "C06", "C07", "C09", "C10", "C11",
       "C12", "C13", "C14", "C15", "C16", "C17", "C18", "C19", "C20"]


PER_HUNK = [False]


def split(patch_text):
    """-> {(file, context): [file header lines + hunks]}"""
    files = re.split(r"(?m)^(?=diff --git )", patch_text)
    out = {}
    for f in files:
        if not f.startswith("diff --git"):
            continue
        lines = f.splitlines(keepends=True)
        hstart = [i for i, l in enumerate(lines) if l.startswith("@@")]
        if not hstart:
            continue
        header = lines[:hstart[0]]
        m = re.match(r"diff --git a/(\S+)", lines[0])
        fname = m.group(1)
        for a, b in zip(hstart, hstart[1:] + [len(lines)]):
            ctx = lines[a].split("@@")[-1].strip()
            ctx = re.sub(r"\(.*", "", ctx)
            if PER_HUNK[0]:
                ctx = "%s#%d" % (ctx, a)
            out.setdefault((fname, ctx), {"header": header, "hunks": []})
            out[(fname, ctx)]["hunks"].append("".join(lines[a:b]))
    return out


def undefined_names(path):
    """Names loaded in function bodies that are bound nowhere (module, builtins,
    enclosing function)."""
    src = open(path, encoding="utf-8").read()
    tree = ast.parse(src)
    mod_names = set(dir(builtins))
    for n in ast.walk(tree):
        if isinstance(n, (ast.FunctionDef, ast.ClassDef)):
            mod_names.add(n.name)
        elif isinstance(n, ast.Import):
            for a in n.names:
                mod_names.add((a.asname or a.name).split(".")[0])
        elif isinstance(n, ast.ImportFrom):
            for a in n.names:
                mod_names.add(a.asname or a.name)
        elif isinstance(n, ast.Name) and isinstance(n.ctx, ast.Store):
            mod_names.add(n.id)
        elif isinstance(n, ast.arg):
            mod_names.add(n.arg)
        elif isinstance(n, ast.ExceptHandler) and n.name:
            mod_names.add(n.name)
    bad = set()
    for n in ast.walk(tree):
        if isinstance(n, ast.Name) and isinstance(n.ctx, ast.Load) and \
                n.id not in mod_names:
            bad.add(n.id)
    # attribute calls self.x(...) to methods that do not exist in the class
    for c in ast.walk(tree):
        if isinstance(c, ast.ClassDef):
            methods = {m.name for m in c.body if isinstance(m, ast.FunctionDef)}
            attrs = set()
            for x in ast.walk(c):
                if isinstance(x, ast.Attribute) and isinstance(x.value, ast.Name) \
                        and x.value.id == "self" and isinstance(x.ctx, ast.Store):
                    attrs.add(x.attr)
            for x in ast.walk(c):
                if isinstance(x, ast.Call) and isinstance(x.func, ast.Attribute) \
                        and isinstance(x.func.value, ast.Name) and \
                        x.func.value.id == "self" and \
                        x.func.attr.startswith("_") and \
                        not x.func.attr.startswith("__") and \
                        x.func.attr not in methods and x.func.attr not in attrs \
                        and not c.bases == []:
                    # inherited private helpers are possible: only flag when
                    # the name appears nowhere else in the file
                    if src.count("def " + x.func.attr) == 0:
                        bad.add("self." + x.func.attr)
    return bad


def run_one(args):
    name, key, sub = args
    tmp = tempfile.mkdtemp(prefix="verif-split-")
    try:
        src = os.path.join(tmp, "src")
        shutil.copytree("/repo/src", src,
                        ignore=shutil.ignore_patterns("__pycache__"))
        pf = os.path.join(tmp, "p.diff")
        with open(pf, "w") as fh:
            fh.write("".join(sub["header"]) + "".join(sub["hunks"]))
        p = subprocess.run(["patch", "-p1", "-s", "--no-backup-if-mismatch",
                            "-F", "0", "-d", tmp, "-i", pf], capture_output=True, text=True)
        if p.returncode != 0:
            return name, key, "skip:apply", []
        path = os.path.join(tmp, key[0])
        try:
            base_bad = undefined_names(os.path.join("/repo", key[0]))
            new_bad = undefined_names(path) - base_bad
        except SyntaxError:
            return name, key, "skip:syntax", []
        if new_bad:
            return name, key, "skip:undefined %s" % sorted(new_bad)[:3], []
        env = dict(os.environ, VERIF_REPO=tmp, PYTHONDONTWRITEBYTECODE="1")
        alarms = []
        for prop in ALL:
            r = subprocess.run([PY, "-W", "ignore", "-m", "sa.cli", prop,
                                "--no-write"], cwd=VERIF, env=env,
                               capture_output=True, text=True, timeout=600)
            if r.returncode != 0:
                lines = [l.strip()[:230] for l in (r.stdout + r.stderr).splitlines()
                         if l.startswith(("  [", "ANALYSIS"))]
                alarms.append((prop, r.returncode, lines[:4]))
        return name, key, "ok" if not alarms else "ALARM", alarms
    finally:
        shutil.rmtree(tmp, ignore_errors=True)


def main():
    ap = argparse.ArgumentParser()
    ap.add_argument("-k", default="")
    ap.add_argument("-j", type=int, default=8)
    ap.add_argument("--per-hunk", action="store_true")
    a = ap.parse_args()
    PER_HUNK[0] = a.per_hunk
    todo = []
    for pf in sorted(glob.glob(os.path.join(VERIF, "benign", "*", "patch.diff"))):
        name = os.path.basename(os.path.dirname(pf))
        if a.k and a.k not in name:
            continue
        subs = split(open(pf).read())
        if len(subs) < 2:
            continue
        for key, sub in sorted(subs.items()):
            todo.append((name, key, sub))
    stats = {}
    with ThreadPoolExecutor(a.j) as ex:
        for name, key, verdict, alarms in ex.map(run_one, todo):
            k = verdict.split(":")[0]
            stats[k] = stats.get(k, 0) + 1
            if verdict == "ALARM":
                print("ALARM %s %s :: %s" % (name, key[0].split("/")[-1], key[1]))
                for prop, rc, lines in alarms:
                    for l in lines:
                        print("      %s rc=%d %s" % (prop, rc, l))
    print("sub-patches: %s" % stats)
    return 1 if stats.get("ALARM") else 0


if __name__ == "__main__":
    sys.exit(main())
