"""Regenerate reference/locals.json: for every function of the package, the
role signature of each local name (see sa/alpha.py).  Run on the tree on which
the rule instances were confirmed (the pinned commit plus the fix: commits).

  /venv/bin/python tools/snapshot_reference.py
"""
import json
import os
import sys

VERIF = os.path.dirname(os.path.dirname(os.path.abspath(__file__)))
sys.path.insert(0, VERIF)
os.environ["VERIF_NO_ALPHA"] = "1"
os.environ["VERIF_NO_INLINE"] = "1"
import ast
from sa import alpha, srcmodel, tables  # noqa: E402

m = srcmodel.Model()
skip = set(tables.schema_modules(m))
out = {}
for q, fi in sorted(m.funcs.items()):
    if fi.module in skip:
        continue
    sig = alpha.signatures(fi.node)
    if len(sig) > 1 or (sig and "self" not in sig):
        out[q[len(m.pkg) + 1:]] = {n: dict(c) for n, c in sorted(sig.items())}
        out[q[len(m.pkg) + 1:]]["__order__"] = [
            n for n in alpha.first_occurrence_order(fi.node) if n in sig]
srcs = {}
for q, fi in sorted(m.funcs.items()):
    if fi.module in skip:
        continue
    try:
        srcs[q[len(m.pkg) + 1:]] = ast.unparse(fi.node)
    except Exception:
        pass
with open(os.path.join(VERIF, "reference", "sources.json"), "w") as fh:
    json.dump(srcs, fh, indent=0, sort_keys=True)
out["__normaliser__"] = alpha.normaliser_digest()
with open(os.path.join(VERIF, "reference", "locals.json"), "w") as fh:
    json.dump(out, fh, indent=0, sort_keys=True)
print(len(out), "functions")
funcs = {"__schema__": sorted(x[len(m.pkg) + 1:] for x in skip)}
for q, fi in sorted(m.funcs.items()):
    if fi.module in skip:
        continue
    sq = q[len(m.pkg) + 1:]
    funcs[sq] = 1
    for n in ast.walk(fi.node):
        if isinstance(n, ast.FunctionDef) and n is not fi.node:
            funcs[sq + ".<locals>." + n.name] = 1
# who calls whom (by last name): callers of each function, for rename matching
callers = {}
for q, fi in sorted(m.funcs.items()):
    if fi.module in skip:
        continue
    sq = q[len(m.pkg) + 1:]
    for n in ast.walk(fi.node):
        if isinstance(n, ast.Call):
            nm = getattr(n.func, "attr", None) or getattr(n.func, "id", None)
            if nm:
                callers.setdefault(nm, set()).add(sq)
funcs["__callers__"] = {k: sorted(v) for k, v in sorted(callers.items())
                        if any(q2.rsplit(".", 1)[-1] == k for q2 in funcs
                               if not q2.startswith("__"))}
from sa import funcrename  # noqa: E402
funcs["__shapes__"] = {q[len(m.pkg) + 1:]: dict(funcrename.body_shape(fi.node))
                       for q, fi in sorted(m.funcs.items())
                       if fi.module not in skip}
with open(os.path.join(VERIF, "reference", "functions.json"), "w") as fh:
    json.dump(funcs, fh, indent=0, sort_keys=True)
print(len(funcs), "function names")
