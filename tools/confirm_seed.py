"""Confirm a seeded change and run the registered checks against it.

  /venv/bin/python tools/confirm_seed.py <seed-dir> [--no-tests] [--props C01,C05]

<seed-dir> holds patch.diff and demo.py.  A scratch git worktree of /repo is
created under /tmp, the patch applied there (never in /repo), then:
  1. byte-compile the package
  2. run the pinned test suite (pass count must stay 308)
  3. run demo.py against the original tree and against the patched tree
  4. run every check (or --props) with VERIF_REPO=<scratch>
The worktree is removed afterwards.  Prints a JSON summary.
"""
import argparse
import json
import os
import re
import shutil
import subprocess
import sys
import tempfile
from concurrent.futures import ThreadPoolExecutor

VERIF = os.path.dirname(os.path.dirname(os.path.abspath(__file__)))
PY = "/venv/bin/python"
ALL = ["C01", "C02", "C03", "C04", "C05", "C06", "C07", "C09", "C10", "C11",
       "C12", "C13", "C14", "C15", "C16", "C17", "C18", "C19", "C20"]


def sh(cmd, cwd=None, env=None, timeout=1800):
    p = subprocess.run(cmd, cwd=cwd, env=env, capture_output=True, text=True,
                       timeout=timeout)
    return p.returncode, p.stdout + p.stderr


def main():
    ap = argparse.ArgumentParser()
    ap.add_argument("seed")
    ap.add_argument("--no-tests", action="store_true")
    ap.add_argument("--props", default="")
    ap.add_argument("--morph", default="", help="transformations of "
                    "tools/metamorph.py (a+b+c) applied to the patched tree "
                    "before the checks run")
    a = ap.parse_args()
    seed = os.path.abspath(a.seed)
    patch = os.path.join(seed, "patch.diff")
    demo = os.path.join(seed, "demo.py")
    wt = tempfile.mkdtemp(prefix="verif-seedchk-", dir="/tmp")
    os.rmdir(wt)
    out = {"seed": seed}
    try:
        rc, o = sh(["git", "-C", "/repo", "worktree", "add", "-q", "--detach",
                    wt, "HEAD"])
        if rc:
            out["error"] = "worktree: " + o
            print(json.dumps(out, indent=1))
            return 2
        rc, o = sh(["git", "-C", wt, "apply", "--whitespace=nowarn", patch])
        out["applies"] = rc == 0
        if rc:
            out["apply_output"] = o[-500:]
            print(json.dumps(out, indent=1))
            return 2
        rc, o = sh([PY, "-W", "ignore", "-m", "compileall", "-q",
                    os.path.join(wt, "src", "saml2_tophat")])
        out["compiles"] = rc == 0
        env = dict(os.environ, PYTHONPATH=os.path.join(wt, "src"),
                   PYTHONDONTWRITEBYTECODE="1")
        env0 = dict(os.environ, PYTHONPATH="/repo/src",
                    PYTHONDONTWRITEBYTECODE="1")
        if os.path.exists(demo):
            rc0, o0 = sh([PY, "-W", "ignore", demo], cwd=seed, env=env0,
                         timeout=600)
            rc1, o1 = sh([PY, "-W", "ignore", demo], cwd=seed, env=env,
                         timeout=600)
            out["demo_original_rc"] = rc0
            out["demo_patched_rc"] = rc1
            out["demo_original_tail"] = o0.strip().splitlines()[-2:]
            out["demo_patched_tail"] = o1.strip().splitlines()[-3:]
        if not a.no_tests:
            rc, o = sh([PY, "-m", "pytest", "-q", "-p", "no:cacheprovider",
                        "--timeout=900", "--continue-on-collection-errors",
                        "tests"], cwd=wt, env=env, timeout=1800)
            mm = re.search(r"(\d+) passed", o)
            out["tests_passed"] = int(mm.group(1)) if mm else None
            out["tests_tail"] = o.strip().splitlines()[-1:]
        props = [p for p in a.props.split(",") if p] or ALL
        if a.morph:
            sys.path.insert(0, VERIF)
            sys.path.insert(0, os.path.join(VERIF, "tools"))
            import warnings
            warnings.simplefilter("ignore")
            os.environ.pop("VERIF_REPO", None)
            import metamorph
            from sa import srcmodel
            model = srcmodel.Model()
            n, changed = metamorph.rewrite(wt, metamorph.hand_written(model),
                                           a.morph, model)
            out["morph_edits"] = n
            rc, o = sh([PY, "-W", "ignore", "-m", "compileall", "-q",
                        os.path.join(wt, "src", "saml2_tophat")])
            out["morph_compiles"] = rc == 0
        cenv = dict(os.environ, VERIF_REPO=wt, PYTHONDONTWRITEBYTECODE="1")

        def one(p):
            rc, o = sh([PY, "-m", "sa.cli", p, "--no-write"], cwd=VERIF,
                       env=cenv, timeout=600)
            lines = [l for l in o.splitlines()
                     if l.startswith(("  [", "VIOLATION", "ANALYSIS-ERROR"))]
            return p, rc, lines
        res = {}
        with ThreadPoolExecutor(16) as ex:
            for p, rc, lines in ex.map(one, props):
                res[p] = {"rc": rc, "lines": [l[:260] for l in lines[:40]]}
        out["checks"] = {p: r for p, r in res.items() if r["rc"] != 0}
        out["detected_by"] = sorted(p for p, r in res.items() if r["rc"] == 1)
        out["analysis_errors"] = sorted(p for p, r in res.items()
                                        if r["rc"] == 2)
    finally:
        sh(["git", "-C", "/repo", "worktree", "remove", "--force", wt])
        shutil.rmtree(wt, ignore_errors=True)
        sh(["git", "-C", "/repo", "worktree", "prune"])
    print(json.dumps(out, indent=1))
    return 0


if __name__ == "__main__":
    sys.exit(main())
