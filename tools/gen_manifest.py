"""Regenerates /verif/MANIFEST.json from the table below and the checker modules
that exist under sa/props/.  Run: /venv/bin/python tools/gen_manifest.py"""
import json
import os

VERIF = os.path.dirname(os.path.dirname(os.path.abspath(__file__)))
PY = "/venv/bin/python"

TRUST = ("Trusted base: CPython's ast parser; the CFG builder in sa/cfg.py "
         "(exception edges over-approximate: any call may raise); name-based "
         "call matching; the reading that each rule is a necessary condition "
         "of the clause it is attached to; the behaviour-preserving normal "
         "form applied before the rules (inline expansion of helpers absent "
         "from reference/functions.json, comprehension / conditional-"
         "expression / any-all desugaring, alpha-renaming against "
         "reference/locals.json - DESIGN 7.7). Nothing is said about xmlsec1, "
         "OpenSSL, ElementTree/defusedxml internals or the Python runtime. "
         "Thorough tier = the same rules plus a sensitivity pass: every "
         "recorded single-edit variant of the property that still applies to "
         "the tree is analysed in a scratch copy and must be reported (breaking "
         "edits) or stay silent (benign edits); a blind rule fails the run "
         "closed (exit 2).")

P = {
 "C01": dict(
  tech="custom AST/CFG rules: who-may-call, derivation (reaching definitions) "
       "of verifier arguments, must-pass-through raise-guard, flag-sensitive "
       "path search, except-handler disposition inventory",
  text="Decides the structural chain that makes the element pysaml2 believes "
       "is signed the element handed to the verifier: only _check_signature "
       "may reach the backend verifier; text, class name and ID passed down "
       "derive from the same parsed item on every caller; a raise-guard ties "
       "the single Reference URI to item.id on every path to the verifier; a "
       "present signature is checked on every accepting path with no "
       "requirement flag in its guard; bypass flags are closed and never "
       "rebound by the function they gate; normal return "
       "of _check_signature is unreachable unless verified was set under a "
       "truthy verdict; no handler on the cone swallows a signature error "
       "outside three enumerated retry idioms; every assertion that is adopted, plain or decrypted, passed the signature gate (R10). Does not decide what xmlsec1 "
       "does with a concrete wrapped document.",
  ref="Part 3 C01"),
 "C02": dict(
  tech="writer/reader agreement of option tables and kwargs (AST), "
       "flag-sensitive CFG search over the force/record/retry/restore "
       "protocol, guard-set comparison of the missing-signature raise sites",
  text="Decides that the three SP options travel unchanged from documented "
       "default to the per-response requirement attribute, that each "
       "missing-signature raise is guarded exactly by its own flag, that both "
       "phases of Entity._parse_response record/force/retry/restore correctly "
       "(handler decides on the recorded value, retry inside the handler, "
       "*_signed only in else, finally restores) and that the either-or gate "
       "blocks the accepting return. The 8x4x2 run-time table itself is not "
       "executed. R7: a signature counts as verified only on the true branch "
       "of the verifier call (C01.R7 re-evaluated under 'every signature that "
       "is present verifies'). R8: the flags that switch verification off stay "
       "closed (C01.R6).",
  ref="Part 3 C02"),
}


def main():
    checks = []
    na = []
    with open(os.path.join(VERIF, "properties.jsonl")) as fh:
        ids = [json.loads(l)["id"] for l in fh if l.strip()]
    from importlib import import_module
    import sys
    sys.path.insert(0, VERIF)
    sys.path.insert(0, os.path.join(VERIF, "tools"))
    try:
        from manifest_table import TABLE, NOT_APPLICABLE
    except ImportError:
        TABLE, NOT_APPLICABLE = {}, {}
    table = dict(P)
    table.update(TABLE)
    for pid in ids:
        mod = os.path.join(VERIF, "sa", "props", pid.lower() + ".py")
        if pid in NOT_APPLICABLE:
            na.append({"property_id": pid, "reason": NOT_APPLICABLE[pid]})
            continue
        if not os.path.exists(mod) or pid not in table:
            na.append({"property_id": pid,
                       "reason": "static checker for this property is not built "
                                 "yet in this revision of /verif (see DESIGN.md "
                                 "Part 3 for the planned rules)"})
            continue
        t = table[pid]
        checks.append({
            "property_id": pid,
            "quick_cmd": "%s -m sa.cli %s --tier quick" % (PY, pid),
            "thorough_cmd": "%s -m sa.cli %s --tier thorough" % (PY, pid),
            "evidence_file": "/verif/evidence/%s.json" % pid,
            "replay_cmd_template": "%s -m sa.cli %s --replay {path}" % (PY, pid),
            "engine": "sa",
            "level_claimed": {"category": "other", "text": t["text"],
                              "design_ref": "DESIGN.md " + t["ref"]},
            "level_note": t.get("note", TRUST),
            "technique": "static analysis: " + t["tech"],
        })
    man = {
        "version": 1,
        "setup_cmd": "%s -m compileall -q sa && %s -c \"import ast, json, "
                     "symtable, inspect\"" % (PY, PY),
        "hooks": {
            "guard": "TOPHATMONOCLE_PYSAML2_VERIF",
            "enable": "none needed: every check is pure source analysis of "
                      "/repo's working tree; no hook or instrumentation was "
                      "added to the repository",
            "baseline_off_cmd": "cd /repo && /venv/bin/python -m pytest -ra -q "
                                "-p no:cacheprovider --timeout=900 "
                                "--continue-on-collection-errors",
            "source_commits": [],
            "add_only": True,
        },
        "engines": [{
            "name": "sa",
            "path": "/verif/sa",
            "serves_properties": [c["property_id"] for c in checks],
            "kind_free_text": "repository-specific static analyser (stdlib "
                              "ast): source model with import/MRO resolution, "
                              "per-function CFG with exception edges and "
                              "dominators, reaching definitions / derivation, "
                              "handler inventory, linear comparison normal "
                              "forms, schema-table reflection, canonical guard "
                              "atoms, behaviour-preserving normalisation "
                              "(inline expansion of new helpers, desugaring, "
                              "alpha-renaming, function-rename restoration, "
                              "call-form canonicalisation, folding of "
                              "single-use temporaries, copy coalescing), "
                              "shared-state and argument-slot rules with "
                              "embedded positive controls, three-case abstract "
                              "evaluation of optional-field filters",
        }],
        "checks": checks,
        "not_applicable": na,
        "notes": "All checks parse /repo (override: VERIF_REPO) on every run. "
                 "Exit 0 holds / 1 VIOLATION / 2 ANALYSIS-ERROR (fail closed). "
                 "Known findings: /verif/known_findings.json. Self-test "
                 "variants: selftest/run.py (312); seeded breaking changes: "
                 "seeded/ (133, all reported); behaviour-preserving refactoring "
                 "patches: benign/ (60, all silent); tools/corpus.py re-checks "
                 "both; tools/metamorph.py applies 24 mechanical behaviour-"
                 "preserving transformations to every hand-written function "
                 "(all silent, also on top of every corpus patch and every "
                 "self-test variant).",
    }
    with open(os.path.join(VERIF, "MANIFEST.json"), "w") as fh:
        json.dump(man, fh, indent=1)
    print("checks=%d not_applicable=%d" % (len(checks), len(na)))


if __name__ == "__main__":
    main()
