"""Regression corpus for the checkers themselves.

  /venv/bin/python tools/corpus.py [-k substring] [-v]

benign/<name>/patch.diff  behaviour-preserving refactorings written by independent
                          sub-agents: every check must exit 0 on the patched tree
seeded/<name>/patch.diff  property-breaking changes: at least one check must exit 1
                          with a VIOLATION line (meta.json names the property)
Each patch is applied in a scratch git worktree of /repo (removed afterwards).
"""
import argparse
import glob
import json
import os
import subprocess
import sys
from concurrent.futures import ThreadPoolExecutor

VERIF = os.path.dirname(os.path.dirname(os.path.abspath(__file__)))


MORPH = [""]


def one(args):
    kind, path = args
    cmd = ["/venv/bin/python", os.path.join(VERIF, "tools", "confirm_seed.py"),
           path, "--no-tests"]
    if MORPH[0]:
        cmd += ["--morph", MORPH[0]]
    p = subprocess.run(cmd, capture_output=True, text=True)
    try:
        d = json.loads(p.stdout)
    except ValueError:
        return kind, path, None, p.stdout[-300:] + p.stderr[-300:]
    return kind, path, d, ""


def main():
    ap = argparse.ArgumentParser()
    ap.add_argument("-k", default="")
    ap.add_argument("-v", action="store_true")
    ap.add_argument("-j", type=int, default=4)
    ap.add_argument("--morph", default="", help="apply these metamorph "
                    "transformations on top of every patch first")
    a = ap.parse_args()
    MORPH[0] = a.morph
    todo = [("benign", os.path.dirname(p)) for p in
            sorted(glob.glob(os.path.join(VERIF, "benign", "*", "patch.diff")))]
    todo += [("seeded", os.path.dirname(p)) for p in
             sorted(glob.glob(os.path.join(VERIF, "seeded", "*", "patch.diff")))]
    todo = [t for t in todo if a.k in t[1]]
    bad = 0
    with ThreadPoolExecutor(a.j) as ex:
        for kind, path, d, err in ex.map(one, todo):
            name = os.path.basename(path)
            if d is None or not d.get("applies"):
                print("ERROR   %-8s %s %s" % (kind, name, err or d))
                bad += 1
                continue
            det, ae = d.get("detected_by") or [], d.get("analysis_errors") or []
            if kind == "benign":
                ok = not det and not ae
                print("%-7s benign  %-8s alarms=%s undecided=%s" % (
                    "ok" if ok else "FALSE+", name, det, ae))
            else:
                prop = None
                mp = os.path.join(path, "meta.json")
                if os.path.exists(mp):
                    prop = json.load(open(mp)).get("property")
                ok = bool(det)
                print("%-7s seeded  %-8s property=%s reported_by=%s "
                      "undecided=%s" % ("ok" if ok else "MISSED", name, prop,
                                        det, ae))
            if not ok:
                bad += 1
            if (not ok or a.v):
                for p, r in (d.get("checks") or {}).items():
                    for l in r["lines"]:
                        if l.startswith("  [") or l.startswith("ANALYSIS"):
                            print("        %s %s" % (p, l.strip()[:240]))
    print("%d patches, %d not as expected" % (len(todo), bad))
    return 1 if bad else 0


if __name__ == "__main__":
    sys.exit(main())
