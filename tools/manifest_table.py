"""Per-property MANIFEST text (merged into tools/gen_manifest.py's table)."""

TABLE = {
 "C03": dict(
  tech="derivation (reaching definitions through make_temp/pem_format) of the "
       "certificate argument, guard-set checks, dominance of the MissingKey "
       "raise, writer inventory of only_use_keys_in_metadata, guard idioms of "
       "the key-use filter",
  text="Decides where every certificate handed to the verifier may come from "
       "(metadata.certs(issuer,'any','signing') or the guarded KeyInfo "
       "fallback), that the fallback is guarded by `not certs and not "
       "only_use_keys_in_metadata`, that an empty list raises before the "
       "verifier, that the issuer looked up is the element's own, the default "
       "and plumbing of the setting, and the use/entity filter of "
       "MetaData.certs. No cryptography, no federation documents. R6 evaluates the KeyDescriptor use filter of MetaData.certs in the three cases use absent / equal / different (abstract evaluation, nothing executed): a key of a different use never reaches the accept site, a key of the requested use does. R7: no certificate/key lookup result is remembered under a key that omits a parameter it depends on (memoisation-key completeness, with an embedded positive control). R8: no positional argument of the signature-checking calls is bound to a parameter other than the one it is named after (issuer / only_valid_cert slots).",
  ref="Part 3 C03"),
 "C04": dict(
  tech="linear normal forms of comparisons (symbols bound by def-use, helper "
       "summaries re-verified), must-call path rules with justification atoms, "
       "flag-sensitive handler search, derivation of the session expiry",
  text="Decides direction, slack sign and window constant of every time "
       "comparison; that each present bound is consulted with self.timeslack "
       "on every accepting path of condition_ok, _bearer_confirmed, "
       "authn_statement_ok, _assertion, _verify and verify; that falsy results "
       "reject; slack provenance; that the lax/test switch is closed; the "
       "handler inventory; and that session_info picks SessionNotOnOrAfter "
       "else Conditions NotOnOrAfter. Timestamp parsing and clock arithmetic "
       "at run time are not decided. R7: no function on the time-checking paths reads the clock or converts a time tuple through the process's local zone (mktime/localtime/naive now), directly or through a time_util/validate helper that does.",
  ref="Part 3 C04"),
 "C05": dict(
  tech="flag-sensitive CFG search under assumed test outcomes, for-all/exists "
       "loop-shape analysis, guard-set and dominance checks, derivation of "
       "return_addrs",
  text="Decides the solicitation gate, the for-all shape / equality / "
       "non-skippability of the SubjectConfirmationData InResponseTo check, "
       "destination validation and its independence from allow_unsolicited, "
       "the unconditional audience check and the every-restriction shape of "
       "for_me, the recipient gate, provenance of the own endpoints and the "
       "came_from gate. The run-time cross product of message shapes is not "
       "executed. R9: no misplaced positional argument in the response-parsing modules. R10: the switch that turns the solicitation/destination checks on (asynchop) is off only for SOAP and PAOS - abstractly evaluated for a binding value that is none of the named ones. R11: the outstanding-request set handed to the response object is the caller's parameter; nothing kept on the client object from earlier calls is mixed in.",
  ref="Part 3 C05"),
 "C06": dict(
  tech="table agreement (samlp constants vs STATUSCODE2EXCEPTION), "
       "flag-sensitive search on status_ok, must-call/dominance, handler "
       "inventory",
  text="Decides that every second-level status code has its own StatusError "
       "subclass, that status_ok returns only for a present Success status, "
       "that status_ok and the version assertion lie on every path to "
       "acceptance and dominate identity extraction, and that nothing on the "
       "way swallows the error. Behaviour on garbage version strings at run "
       "time is not decided. When STATUSCODE2EXCEPTION is computed rather than written as a literal its entries are read from the imported module (top level only) and compared with the samlp constants. R6: Entity._parse_response returns a response only after a verify() call on it completed normally. R7: on the request side, what Entity._parse_request hands back is the result of Request.verify() (Version / IssueInstant / Destination), not the loaded object (C10.R1 re-evaluated here).",
  ref="Part 3 C06"),
 "C07": dict(
  tech="typestate over the CFG (normal and exceptional paths separately), "
       "shape rules on the filter functions, derivation of Policy.filter's "
       "result",
  text="Decides that every path from Assertion(identity) to construct() "
       "passes a normally completed apply_policy, the commit shape of "
       "apply_policy, that the four filter functions only narrow, that "
       "Policy.filter returns a filtered copy and always applies configured "
       "attribute_restrictions, and the error branch. Two genuine violations "
       "are recorded as known findings. Regex semantics and entity-category "
       "contents are not decided. Policy.filter: the unfiltered copy is assigned only under `_ava is None` once a filter stage may have run. R6: a composite (tuple) entity-category key releases its attributes only if every member category is among the SP's. R7: mdstore.attribute_requirement consults every AttributeConsumingService; only an explicit index narrows. R3 additionally: every round of the value-restriction loop ends in deleting the attribute, replacing its values by the matching ones (built from the matches only) or `no value restriction`. R8: no call modifies an object the next call starts from (mutable defaults, shallow copies of module-level templates).",
  ref="Part 3 C07"),
 "C09": dict(
  tech="derivation of returned destinations, equality-guard recognition, "
       "handler inventory around the metadata lookup, flag-sensitive "
       "unknown/unsupported distinction",
  text="Decides that every destination pick_binding returns comes from the "
       "requester's metadata service list or equals a registered location, "
       "that the fallthrough raises and UnknownSystemEntity is never caught, "
       "that the entity consulted is the request Issuer, that response_args "
       "uses only pick_binding's answer, and the store-side "
       "unknown/unsupported/binding-filter logic. R5: every typed accessor of the store asks service() for the caller's binding (or the documented default) and lets its refusal propagate. R6: Server.verify_assertion_consumer_service answers True only under an equality of the requested URL/index itself with a value read from the requester's registered consumer services (no comparison of normalised or partial forms). R5 additionally: every typed accessor asks the store for the service it is named after (helpers expanded). R7: the metadata sources are constructed with each option bound to the parameter it is named after, also through super().__init__ / Base.__init__ (a crossed check_validity would serve expired requesters).",
  ref="Part 3 C09"),
 "C10": dict(
  tech="dominance/flag-sensitive pipeline rule, derivation of must and "
       "receiver addresses, handler obligations, class/parser/service table "
       "agreement, linear window form, flag-sensitive accept=>verified",
  text="Decides the unravel->loads->verify pipeline, provenance of `must`, "
       "the obligations of the swallowing handler in Request._loads, schema "
       "validation before acceptance, agreement of each request class with "
       "the parser of its message type and the service tables, unsigned+must "
       "and wrong-type rejection, Destination and IssueInstant gates, and "
       "accept=>verified with only_valid_cert unconstrained. Two genuine "
       "violations are recorded as known findings. Garbled encodings and "
       "xmlsec1 are not decided. Request._loads hands signature_check exactly the caller's must/only_valid_cert/origdoc on every path (origins, not text). R10: no misplaced positional argument in the request-parsing modules; the reference-URI guard of the shared verifier (C01.R3) is part of R7. R11 (= C01.R5): a signature present on a request is checked on every accepting path of correctly_signed_message; nothing remembered from an earlier message stands in for the check.",
  ref="Part 3 C10"),
}

TABLE.update({
 "C11": dict(
  tech="whole-package call inventory with callee resolution through the "
       "import tables (all try/except alternatives), option check on "
       "defusedxml calls, import inventory, single-funnel check of generated "
       "*_from_string, handler inventory, positive control",
  text="Decides the property's 'programs' quantifier: every call in the "
       "package that turns XML text into a tree resolves to defusedxml with "
       "default protections; the standard-library ElementTree is used only to "
       "build/serialise; third-party parsing is limited to two named sites of "
       "the opt-in pyXMLSecurity backend; all 1143 generated *_from_string "
       "functions go through create_class_from_xml_string; no parse function "
       "swallows a parser error. What libxml2 inside xmlsec1 does and parser "
       "behaviour on concrete hostile documents are not decided. R6: no incremental parse (iterparse/pull parser) whose consuming loop can be left before the input is exhausted. R7: every inbound parse call receives the function's own text argument, at most re-encoded (no slicing, regex extraction or rewriting before the parse). R5 treats ValueError (the base class of the defusedxml refusals) as a parser error class and inspects every handler of the hand-written modules that wraps a parse call.",
  ref="Part 3 C11"),
 "C12": dict(
  tech="schema-table reflection (import of the schema modules in a child "
       "process, module top level only) + exhaustive table rules + AST "
       "constructor-coverage + engine channel symmetry",
  text="Decides, exhaustively over all 1155 schema classes, that every "
       "c_children key equals the child's own {ns}tag, that c_child_order "
       "covers the members, that member names are unique, that the "
       "constructor chain assigns every member, that the module maps agree "
       "with the classes, and that the generic reader and writer in "
       "SamlBase/ExtensionContainer use the same six channels. Equality of "
       "arbitrary instance trees and byte stability are not decided. Writer: a declared attribute is written whenever the member is not None (the only value guard). The received attribute name / child element is looked up and stored unchanged (no re-binding of the key). E4: the foreign-content reader stores every child element as it is met, in a loop over the parsed element, unconditionally, and keeps attributes and text. E5: shared-state rule for the element engine. E6: the foreign-content writer assigns the element's own text, copies every attribute and appends every child (no streamed builder that turns text into a child's tail). E7: whatever the engine keeps per class is read back through the class's own namespace, never by inheriting attribute lookup. E1/E3 membership rules are undecided (exit 2), not violated, for a reader that no longer consults c_children itself.",
  ref="Part 3 C12"),
 "C13": dict(
  tech="schema-table reflection + exhaustive type-name/cardinality rules, "
       "linear normal forms of the cardinality tests, must-delegate path rule "
       "for verify() overrides, fallibility checks of validators",
  text="Decides that every declared attribute type resolves under "
       "validate.valid's own resolution (or a default), that every bound names "
       "a real member and is well formed, the shape of valid_instance "
       "(required/empty, typed validation, min/max normal forms, recursion, "
       "text), delegation of the five verify() overrides, that the checked "
       "simple-type validators can fail and are wired into VALIDATOR, and "
       "validation on the receive paths. Value-level conformance of arbitrary "
       "strings is not decided. V8: memoisation keys in validate.py are complete; V9: the constructor default of every required attribute of every schema class is None. V10: parse_duration dereferences the current position in every round before the designator loop can be left, which is what refuses a duration that ends right after the 'P'.",
  ref="Part 3 C13"),
 "C14": dict(
  tech="classified template inventory, sanitiser (html.escape) check on every "
       "substitution, derivation of URL/form data from urlencode, "
       "encoder/decoder pairing by binding guard, structural agreement of the "
       "deflate helpers, SOAP decoder coverage table",
  text="Decides that message/RelayState-derived values are html.escape()d "
       "before substitution into the POST form, that queries and form bodies "
       "come only from urlencode with the ?/& glue rule, that apply_binding "
       "and unravel choose inverse codecs per binding, that the raw-DEFLATE "
       "encoder/decoder agree, and SOAP embedding/expected-tag/decoder "
       "coverage. Byte identity for all strings and browser parsing are not "
       "decided. S2: no decode/packaging call modifies an object that survives the call (mutable default arguments, nested objects of module-level templates reached through shallow copies), with an embedded positive control. S1 additionally: the SOAP decoders look for Body/Header among the envelope's direct children only (no iter/getiterator/'//' searches).",
  ref="Part 3 C14"),
 "C15": dict(
  tech="ownership analysis of module-level object containers (attribute "
       "stores on elements obtained from them, with positive control), "
       "derivation of signer/key, feature comparison of the signed octet "
       "string on both sides, verdict derivation",
  text="Decides that no function writes to a signer object shared through "
       "SIGNER_ALGS (the structural cause of every key mix-up history or "
       "schedule), that the signer carries the entity's own key, that signer "
       "and verifier build the signed string identically (order tables, "
       "encoder, separator, filter, SigAlg in / Signature out), that the "
       "verdict derives only from signer.verify and failures are False. "
       "Thread interleavings as such and RSA are not decided.",
  ref="Part 3 C15"),
 "C16": dict(
  tech="agreement of accessor key strings and service tables with reflected "
       "md/xmldsig class tables, flag-sensitive validity gates incl. "
       "exception (fail-open) paths, caller inventory for verify-before-serve",
  text="Decides that every (descriptor, service) key an accessor uses is a "
       "real member along the schema path, that expired entities/documents "
       "never reach the commit (also when the validity test raises), the "
       "unknown/unsupported/binding filter, entity isolation and key-use "
       "filter, and whether every caller acts on the signature verdict. "
       "Three genuine violations are recorded as known findings. Exactness "
       "for arbitrary federation documents is not decided. M7 (generation side of the round trip): do_key_descriptor emits one KeyDescriptor per configured certificate under the use it is configured for, unconditionally within its loop. M8: memoisation keys complete in mdstore/metadata/config; M9: no misplaced positional argument when the store is built and loaded. M10: do_endpoints publishes a configured endpoint index unchanged and uses the running counter only under a presence test (0 is a legal index). M2/M6 compare the validity tests, duplicate test and commit key with temporaries expanded. M12 (= C17.R7): a KeyDescriptor without `use` is served for every requested use. M9 also resolves super().__init__ / Base.__init__ to the inherited initialiser. M13: the option mapping MetadataStore.load / imp fill per source and splat into the source's constructor is created in that call, never an object kept on the store.",
  ref="Part 3 C16"),
 "C17": dict(
  tech="statement-order rule in the common block, move-not-copy check, "
       "flag-sensitive failure rules, same-gate dominance for decrypted "
       "assertions, parity rule for load-time checks",
  text="Decides sign-assertion < encrypt < sign-response ordering, that the "
       "clear assertion is moved into the EncryptedAssertion, that empty tool "
       "output raises and a failed encryption never returns the clear "
       "response, that decrypted assertions pass _assertion and signature "
       "checks, and whether load-time checks are repeated for decrypted "
       "assertions (one genuine violation recorded). Ciphertext contents and "
       "key matching are not decided. R7: a KeyDescriptor without use is returned for every requested use and the encryption lookups ask for use 'encryption'; R8: the key an assertion is encrypted for derives on every call from encrypt_cert or metadata.certs(sp_entity_id) only, never from state kept on the entity. R9: in Entity._response the decision whether the advice assertion is encrypted is examined on every path to a normal return (a /repo fix: commit repaired the early return that skipped it). R4 includes: the flag that switches the decryption-time signature check off is the caller's - decrypt_assertions never rebinds it.",
  ref="Part 3 C17"),
 "C18": dict(
  tech="who-may-write ownership of the identifier map, pairing checks of "
       "forward/reverse updates, codec feature agreement incl. quote() safe "
       "set, derivation from rndbytes, guard-set checks, symtable "
       "undefined-name scan",
  text="Decides necessary conditions of consistency over any history: only "
       "store/remove_remote/remove_local write the map and each keeps both "
       "directions in step, code/decode agree and separators are always "
       "quoted, new ids derive from fresh randomness with a collision retry, "
       "persistent lookup precedes issue and compares both qualifiers, the "
       "manage-name-id sequence, no undefined names. Histories and run-time "
       "uniqueness are not decided. R7: a NameID mapping request returns a stored identifier only under equality of format and SPNameQualifier with the request's policy. R8: find_nameid returns an identifier only if every criterion matches; code() encodes each field unchanged (one-to-one). R1 additionally: a failing entry in remove_local never ends the removal without deleting the user's own record. R9: shared-state rule for the identifier database. R10: whatever the database object keeps between calls besides db (a memo of issued identifiers, an index) is invalidated by remove_remote and remove_local.",
  ref="Part 3 C18"),
 "C19": dict(
  tech="derivation of every index into Cache._db, dominance of the expiry "
       "test, writer/reader tuple agreement, reachability of the merge from "
       "stale branches, shape checks, normal forms of before/after",
  text="Decides that every access to the cache map is keyed by "
       "code(name_id) of the method's own subject, that get() returns only "
       "after the expiry test and set()/get() agree on the stored tuple, that "
       "expired/empty sources cannot reach the merge, delete/reset shapes and "
       "backend neutrality. Histories and shelve semantics are not decided. reset() stores the empty, expired record on every normal path. The cache key function code() is one-to-one; memoisation keys in cache/ident/population are complete. R8: shared-state rule for the cache modules. R9: whatever the cache keeps between calls besides _db (a remembered record, a memo) is rewritten or cleared by delete.",
  ref="Part 3 C19"),
 "C20": dict(
  tech="flag-sensitive shape rules on _run_xmlsec / parse_xmlsec_output / "
       "sign_statement, frozen call-site set, verdict derivation, reuse of "
       "C01.R7/R8 and C17.R3/R6",
  text="Decides that death by signal raises, that the tool's report is "
       "validated unless one of four producing operations opts out, that "
       "success requires a whole line equal to OK, that the verdict is handed "
       "up unchanged, that nothing is accepted unless verified was set under "
       "a truthy verdict, and that signing/encryption without output raise. "
       "The tool's real behaviour under each fault mode is not decided.",
  ref="Part 3 C20"),
})

NOT_APPLICABLE = {
 "C08": "every clause quantifies over run-time values across two processes, "
        "an external signer and an XML round trip (acceptance plus equality of "
        "identity values for all strings); no necessary condition beyond those "
        "already checked under C12/C14/C17 is visible in the shape of the "
        "code, so no static rule is claimed (DESIGN.md Part 4)",
}
