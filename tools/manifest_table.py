"""Per-property MANIFEST text (merged into tools/gen_manifest.py's table)."""

TABLE = {
 "C03": dict(
  tech="derivation (reaching definitions through make_temp/pem_format) of the "
       "certificate argument, guard-set checks, dominance of the MissingKey "
       "raise, writer inventory of only_use_keys_in_metadata, guard idioms of "
       "the key-use filter",
  text="Decides where every certificate handed to the verifier may come from "
       "(metadata.certs(issuer,'any','signing') or the guarded KeyInfo "
       "fallback), that the fallback is guarded by `not certs and not "
       "only_use_keys_in_metadata`, that an empty list raises before the "
       "verifier, that the issuer looked up is the element's own, the default "
       "and plumbing of the setting, and the use/entity filter of "
       "MetaData.certs. No cryptography, no federation documents.",
  ref="Part 3 C03"),
 "C04": dict(
  tech="linear normal forms of comparisons (symbols bound by def-use, helper "
       "summaries re-verified), must-call path rules with justification atoms, "
       "flag-sensitive handler search, derivation of the session expiry",
  text="Decides direction, slack sign and window constant of every time "
       "comparison; that each present bound is consulted with self.timeslack "
       "on every accepting path of condition_ok, _bearer_confirmed, "
       "authn_statement_ok, _assertion, _verify and verify; that falsy results "
       "reject; slack provenance; that the lax/test switch is closed; the "
       "handler inventory; and that session_info picks SessionNotOnOrAfter "
       "else Conditions NotOnOrAfter. Timestamp parsing and clock arithmetic "
       "at run time are not decided.",
  ref="Part 3 C04"),
 "C05": dict(
  tech="flag-sensitive CFG search under assumed test outcomes, for-all/exists "
       "loop-shape analysis, guard-set and dominance checks, derivation of "
       "return_addrs",
  text="Decides the solicitation gate, the for-all shape / equality / "
       "non-skippability of the SubjectConfirmationData InResponseTo check, "
       "destination validation and its independence from allow_unsolicited, "
       "the unconditional audience check and the every-restriction shape of "
       "for_me, the recipient gate, provenance of the own endpoints and the "
       "came_from gate. The run-time cross product of message shapes is not "
       "executed.",
  ref="Part 3 C05"),
 "C06": dict(
  tech="table agreement (samlp constants vs STATUSCODE2EXCEPTION), "
       "flag-sensitive search on status_ok, must-call/dominance, handler "
       "inventory",
  text="Decides that every second-level status code has its own StatusError "
       "subclass, that status_ok returns only for a present Success status, "
       "that status_ok and the version assertion lie on every path to "
       "acceptance and dominate identity extraction, and that nothing on the "
       "way swallows the error. Behaviour on garbage version strings at run "
       "time is not decided.",
  ref="Part 3 C06"),
 "C07": dict(
  tech="typestate over the CFG (normal and exceptional paths separately), "
       "shape rules on the filter functions, derivation of Policy.filter's "
       "result",
  text="Decides that every path from Assertion(identity) to construct() "
       "passes a normally completed apply_policy, the commit shape of "
       "apply_policy, that the four filter functions only narrow, that "
       "Policy.filter returns a filtered copy and always applies configured "
       "attribute_restrictions, and the error branch. Two genuine violations "
       "are recorded as known findings. Regex semantics and entity-category "
       "contents are not decided.",
  ref="Part 3 C07"),
 "C09": dict(
  tech="derivation of returned destinations, equality-guard recognition, "
       "handler inventory around the metadata lookup, flag-sensitive "
       "unknown/unsupported distinction",
  text="Decides that every destination pick_binding returns comes from the "
       "requester's metadata service list or equals a registered location, "
       "that the fallthrough raises and UnknownSystemEntity is never caught, "
       "that the entity consulted is the request Issuer, that response_args "
       "uses only pick_binding's answer, and the store-side "
       "unknown/unsupported/binding-filter logic.",
  ref="Part 3 C09"),
 "C10": dict(
  tech="dominance/flag-sensitive pipeline rule, derivation of must and "
       "receiver addresses, handler obligations, class/parser/service table "
       "agreement, linear window form, flag-sensitive accept=>verified",
  text="Decides the unravel->loads->verify pipeline, provenance of `must`, "
       "the obligations of the swallowing handler in Request._loads, schema "
       "validation before acceptance, agreement of each request class with "
       "the parser of its message type and the service tables, unsigned+must "
       "and wrong-type rejection, Destination and IssueInstant gates, and "
       "accept=>verified with only_valid_cert unconstrained. Two genuine "
       "violations are recorded as known findings. Garbled encodings and "
       "xmlsec1 are not decided.",
  ref="Part 3 C10"),
}

NOT_APPLICABLE = {
 "C08": "every clause quantifies over run-time values across two processes, "
        "an external signer and an XML round trip (acceptance plus equality of "
        "identity values for all strings); no necessary condition beyond those "
        "already checked under C12/C14/C17 is visible in the shape of the "
        "code, so no static rule is claimed (DESIGN.md Part 4)",
}
