"""C12 table defects against the real code.  demo_c12_tables.py f09|f15|f16
exit 1 = round trip loses data / serialisation raises (defect present)."""
import sys, warnings
warnings.simplefilter("ignore")
which = sys.argv[1]
if which == "f09":
    from saml2_tophat import xmldsig as ds, xmlenc as xenc
    ki = ds.KeyInfo(encrypted_key=xenc.EncryptedKey(id="EK"))
    back = ds.key_info_from_string(ki.to_string())
    print("encrypted_key after round trip:", back.encrypted_key,
          "extension_elements:", len(back.extension_elements))
    sys.exit(0 if back.encrypted_key is not None and back.encrypted_key.id == "EK" else 1)
if which == "f15":
    from saml2_tophat.authn_context import sslcert
    try:
        s = sslcert.PublicKeyType_().to_string()
        back = sslcert.public_key_type__from_string(s)
        print("serialised:", s[:120], "->", back.key_validation); sys.exit(0)
    except AttributeError as e:
        print("AttributeError:", e); sys.exit(1)
if which == "f16":
    from saml2_tophat.schema import wsdl
    try:
        d = wsdl.Definitions(import_=wsdl.Import(namespace="urn:x", location="y"))
        back = wsdl.definitions_from_string(d.to_string())
        print("import after round trip:", back.import_)
        sys.exit(0 if back.import_ is not None else 1)
    except AttributeError as e:
        print("AttributeError:", e); sys.exit(1)
