"""C17 finding: advice encryption is silently skipped when the assertion is
signed and the response is not.

Entity._response begins with

    if not sign and to_sign and not encrypt_assertion:
        return signed_instance_factory(response, self.sec, to_sign)

`encrypted_advice_attributes` (PEFIM: the attribute assertion travels inside
Advice and is to be encrypted for the SP) is not part of that test.  With
sign_assertion=True, sign_response=False, encrypt_assertion=False and
encrypted_advice_attributes=True / pefim=True the IdP - which was asked to
encrypt the advice assertion for an SP that publishes an encryption
certificate - emits the attribute names and values in clear.  The same call
with sign_response=True (or sign_assertion=False) encrypts them.

xmlsec1 is not available: a small CryptoBackend on the `cryptography` package
stands in for it (written by the sub-agent that produced seed C17-f; only the
backend and the SP/IdP set-up are reused here).

Run:  PYTHONPATH=/repo/src /venv/bin/python findings/demo_c17_advice.py
exit 0 = the defect is present (attributes in clear), exit 1 = not reproduced
"""
import base64
import hashlib
import logging
import os
import sys
import warnings
import xml.etree.ElementTree as ET

warnings.simplefilter("ignore")

from cryptography import x509
from cryptography.fernet import Fernet
from cryptography.hazmat.primitives import hashes, serialization
from cryptography.hazmat.primitives.asymmetric import padding

import saml2_tophat
from saml2_tophat import BINDING_HTTP_POST, BINDING_HTTP_REDIRECT
from saml2_tophat import saml
from saml2_tophat.authn_context import INTERNETPROTOCOLPASSWORD
from saml2_tophat.client import Saml2Client
from saml2_tophat.config import IdPConfig, SPConfig
from saml2_tophat.metadata import entity_descriptor
from saml2_tophat.server import Server
from saml2_tophat.sigver import CryptoBackend

ROOT = os.path.dirname(os.path.dirname(os.path.dirname(
    os.path.abspath(saml2_tophat.__file__))))
TESTS = os.path.join(ROOT, "tests")

DS = "http://www.w3.org/2000/09/xmldsig#"
XENC = "http://www.w3.org/2001/04/xmlenc#"


def tp(name):
    return os.path.join(TESTS, name)


def _local(tag):
    return tag.rsplit("}", 1)[-1]


def _canon(elem):
    """Prefix independent canonical form of elem without its ds:Signature."""
    kids = [_canon(c) for c in elem if c.tag != "{%s}Signature" % DS]
    return (elem.tag, tuple(sorted(elem.attrib.items())),
            (elem.text or "").strip(), tuple(kids))


def _digest(elem):
    return hashlib.sha256(repr(_canon(elem)).encode("utf-8")).digest()


def _find_by_id(root, node_id):
    for el in root.iter():
        if el.get("ID") == node_id:
            return el
    return None


def _parent_map(root):
    return {c: p for p in root.iter() for c in p}


def _pubkey(cert_file):
    with open(cert_file, "rb") as fp:
        data = fp.read()
    if b"BEGIN" not in data:
        data = (b"-----BEGIN CERTIFICATE-----\n" + data +
                b"\n-----END CERTIFICATE-----\n")
    return x509.load_pem_x509_certificate(data).public_key()


def _privkey(key_file):
    with open(key_file, "rb") as fp:
        return serialization.load_pem_private_key(fp.read(), password=None)


_OAEP = padding.OAEP(mgf=padding.MGF1(hashes.SHA256()),
                     algorithm=hashes.SHA256(), label=None)


class PyBackend(CryptoBackend):
    """RSA/Fernet based stand-in for xmlsec1 (real keys, real failures)."""

    def __init__(self):
        CryptoBackend.__init__(self)

    def version(self):
        return "pybackend"

    # -- signatures -------------------------------------------------------
    def sign_statement(self, statement, node_name, key_file, node_id,
                       id_attr):
        if isinstance(statement, bytes):
            statement = statement.decode("utf-8")
        root = ET.fromstring(statement)
        node = _find_by_id(root, node_id)
        sig = node.find("{%s}Signature" % DS)
        value = _privkey(key_file).sign(_digest(node), padding.PKCS1v15(),
                                        hashes.SHA256())
        sig.find("{%s}SignatureValue" % DS).text = \
            base64.b64encode(value).decode("ascii")
        return ET.tostring(root, encoding="unicode")

    def validate_signature(self, signedtext, cert_file, cert_type, node_name,
                           node_id, id_attr):
        if isinstance(signedtext, bytes):
            signedtext = signedtext.decode("utf-8")
        root = ET.fromstring(signedtext)
        node = _find_by_id(root, node_id)
        if node is None:
            return False
        sig = node.find("{%s}Signature" % DS)
        if sig is None:
            return False
        try:
            value = base64.b64decode(
                sig.find("{%s}SignatureValue" % DS).text or "")
            _pubkey(cert_file).verify(value, _digest(node),
                                      padding.PKCS1v15(), hashes.SHA256())
        except Exception:
            return False
        return True

    # -- encryption -------------------------------------------------------
    def encrypt_assertion(self, statement, enc_key, template,
                          key_type="des-192", node_xpath=None, node_id=None):
        statement = "%s" % statement
        root = ET.fromstring(statement)
        if node_xpath:
            names = [seg.split('"')[1] for seg in node_xpath.split("/") if seg]
        else:
            names = ["Response", "EncryptedAssertion", "Assertion"]
        assert _local(root.tag) == names[0]
        node, parent = root, None
        for name in names[1:]:
            parent = node
            node = [c for c in parent if _local(c.tag) == name][0]
        fkey = Fernet.generate_key()
        wrapped = _pubkey(enc_key).encrypt(fkey, _OAEP)
        data = Fernet(fkey).encrypt(ET.tostring(node))
        enc = ET.fromstring("%s" % template)
        values = [e for e in enc.iter("{%s}CipherValue" % XENC)]
        # first CipherValue in document order belongs to the EncryptedKey
        values[0].text = base64.b64encode(wrapped).decode("ascii")
        values[1].text = base64.b64encode(
            base64.urlsafe_b64decode(data)).decode("ascii")
        idx = list(parent).index(node)
        parent.remove(node)
        parent.insert(idx, enc)
        return ET.tostring(root, encoding="unicode")

    def decrypt(self, enctext, key_file, id_attr):
        if isinstance(enctext, bytes):
            enctext = enctext.decode("utf-8")
        root = ET.fromstring(enctext)
        pmap = _parent_map(root)
        key = _privkey(key_file)
        for enc in root.iter("{%s}EncryptedData" % XENC):
            values = [e for e in enc.iter("{%s}CipherValue" % XENC)]
            try:
                fkey = key.decrypt(base64.b64decode(values[0].text), _OAEP)
                plain = Fernet(fkey).decrypt(base64.urlsafe_b64encode(
                    base64.b64decode(values[1].text)))
            except Exception:
                return None
            parent = pmap[enc]
            idx = list(parent).index(enc)
            parent.remove(enc)
            parent.insert(idx, ET.fromstring(plain))
            return ET.tostring(root, encoding="unicode")
        return None



IDP_ID = "urn:example:idp"
SP_ID = "urn:example:sp"
ACS = "http://sp.example.com/acs"

POLICY = {"default": {"lifetime": {"minutes": 15},
                      "attribute_restrictions": None}}


def _sp_conf(want_assertions_signed=False):
    return {
        "entityid": SP_ID,
        "service": {"sp": {
            "endpoints": {"assertion_consumer_service": [
                (ACS, BINDING_HTTP_POST)]},
            "idp": [IDP_ID],
            "allow_unsolicited": False,
            "want_response_signed": False,
            "want_assertions_signed": want_assertions_signed,
        }},
        "key_file": tp("test.key"),
        "cert_file": tp("test.pem"),
        "encryption_keypairs": [{"key_file": tp("test_1.key"),
                                 "cert_file": tp("test_1.crt")}],
        "crypto_backend": "XMLSecurity",
        "attribute_map_dir": tp("attributemaps"),
        "allow_unknown_attributes": True,
    }


def _idp_conf():
    return {
        "entityid": IDP_ID,
        "service": {"idp": {
            "endpoints": {"single_sign_on_service": [
                ("http://idp.example.com/sso", BINDING_HTTP_REDIRECT)]},
            "policy": POLICY,
        }},
        "key_file": tp("test_2.key"),
        "cert_file": tp("test_2.crt"),
        "crypto_backend": "XMLSecurity",
        "attribute_map_dir": tp("attributemaps"),
    }


def make_pair(want_assertions_signed=False, sp_keypairs=None):
    """sp_keypairs: encryption key pairs the SP instance really holds (the
    IdP always sees the metadata advertising test_1.crt)."""
    spc = _sp_conf(want_assertions_signed)
    idc = _idp_conf()
    sp_md = "%s" % entity_descriptor(SPConfig().load(dict(spc)))
    idp_md = "%s" % entity_descriptor(IdPConfig().load(dict(idc)))
    spc["metadata"] = {"inline": [idp_md]}
    idc["metadata"] = {"inline": [sp_md]}
    if sp_keypairs is not None:
        spc["encryption_keypairs"] = sp_keypairs
    sp = Saml2Client(config=SPConfig().load(spc))
    idp = Server(config=IdPConfig().load(idc))
    sp.sec.crypto = PyBackend()
    idp.sec.crypto = PyBackend()
    return idp, sp


IDENTITY = {"givenName": ["Zaphod"], "surName": ["Beeblebrox"],
            "mail": ["zaphod@heart-of-gold.example"]}
AUTHN = {"class_ref": INTERNETPROTOCOLPASSWORD,
         "authn_auth": "http://idp.example.com/login"}
SECRETS = ("Zaphod", "Beeblebrox", "heart-of-gold", "subject-id-4711",
           "givenName", "urn:oid:2.5.4.42")



# what must never be readable once the respective assertion is encrypted
SUBJECT_SECRETS = ("subject-id-4711",)
ATTRIBUTE_SECRETS = ("Zaphod", "Beeblebrox", "heart-of-gold", "givenName",
                     "urn:oid:2.5.4.42", "urn:oid:2.5.4.4", "surName",
                     "urn:oid:0.9.2342.19200300.100.1.3")

SAML_NS = "urn:oasis:names:tc:SAML:2.0:assertion"
KEYS = {"sp-encryption": "test_1.key", "sp-signing": "test.key",
        "idp": "test_2.key"}




def issue(idp, sign_response, sign_assertion):
    name_id = saml.NameID(format=saml.NAMEID_FORMAT_TRANSIENT,
                          text="subject-id-4711")
    resp = idp.create_authn_response(
        IDENTITY, "req-1", ACS, SP_ID, name_id=name_id, authn=AUTHN,
        sign_response=sign_response, sign_assertion=sign_assertion,
        encrypt_assertion=False, encrypted_advice_attributes=True,
        pefim=True, encrypt_assertion_self_contained=True)
    return "%s" % resp


def main():
    logging.disable(logging.CRITICAL)
    idp, sp = make_pair()
    rows = []
    for sr, sa in ((True, True), (True, False), (False, False), (False, True)):
        xml = issue(idp, sr, sa)
        leaked = [s for s in ATTRIBUTE_SECRETS if s in xml]
        rows.append((sr, sa, leaked, "EncryptedAssertion" in xml))
        print("sign_response=%-5s sign_assertion=%-5s encrypted-advice=%-5s "
              "in clear: %s" % (sr, sa, "EncryptedAssertion" in xml, leaked))
    bad = [r for r in rows if r[2]]
    if bad and all(not r[2] for r in rows[:3]) and rows[3][2]:
        print("DEFECT PRESENT: with sign_assertion and an unsigned response the "
              "advice assertion is emitted in clear although its encryption "
              "was requested")
        return 0
    print("not reproduced")
    return 1


if __name__ == "__main__":
    sys.exit(main())
