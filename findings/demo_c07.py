"""C07 demonstrations.  demo_c07.py f05|f06 ; exit 1 = attributes outside the
policy/declaration were released (defect present)."""
import sys
sys.path.insert(0, "/verif/findings")
from harness import *
from saml2_tophat import samlp

which = sys.argv[1]
IDENT = {"givenName": ["Ada"], "surName": ["Lovelace"], "mail": ["ada@example.org"],
         "eduPersonEntitlement": ["urn:secret:payroll-admin"]}


def released(resp):
    r = samlp.response_from_string(str(resp))
    out = set()
    for a in r.assertion:
        for st in a.attribute_statement:
            for at in st.attribute:
                out.add(at.friendly_name or at.name)
    return out

if which == "f05":
    # SP declares required givenName + title (the IdP has no title) and optional
    # mail.  Policy: default (no attribute_restrictions).  The policy-filtered
    # view would be {givenName, mail}; title cannot be supplied.
    sp, idp = pair(sp_kw={"required_attributes": ["givenName", "title"],
                          "optional_attributes": ["mail"]})
    resp = make_response(idp, identity=dict(IDENT))
    got = released(resp)
    print("released:", sorted(got))
    if "eduPersonEntitlement" in got or "surName" in got or "sn" in got:
        print("UNFILTERED identity released after MissingValue (best effort)")
        sys.exit(1)
elif which == "f06":
    sp, idp = pair(sp_kw={"required_attributes": ["givenName"],
                          "optional_attributes": ["mail"]})
    assert idp.config.getattr("policy", "aa") is None   # no AA policy configured
    authn = released(make_response(idp, identity=dict(IDENT)))
    attr = released(idp.create_attribute_response(dict(IDENT), "id-2", ACS, SP_ID, userid="ada"))
    print("authn response releases    :", sorted(authn))
    print("attribute response releases:", sorted(attr))
    if not attr <= authn:
        print("attribute response releases attributes the SP never declared")
        sys.exit(1)
sys.exit(0)
