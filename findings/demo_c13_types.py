"""F10 (C13.V1): validating a VALID value of an attribute whose declared type
name has no validator raised KeyError.  exit 1 = defect present."""
import sys, warnings
warnings.simplefilter("ignore")
from saml2_tophat.extension import algsupport, pefim
from saml2_tophat import xmldsig as ds
from saml2_tophat.validate import NotValid
bad = 0
for obj in (algsupport.SigningMethod(algorithm="http://www.w3.org/2001/04/xmldsig-more#rsa-sha256", min_key_size="2048"),
            pefim.SPCertEnc(verify_depth="1", key_info=[ds.KeyInfo(key_name=[ds.KeyName(text="k")])])):
    try:
        obj.verify(); print("valid instance accepted:", type(obj).__name__)
    except KeyError as e:
        print("KeyError on a valid %s: %s" % (type(obj).__name__, e)); bad += 1
try:
    algsupport.SigningMethod(algorithm="a", min_key_size="-5").verify()
    print("invalid positiveInteger accepted"); bad += 1
except NotValid as e:
    print("invalid positiveInteger rejected:", e)
except KeyError as e:
    print("KeyError:", e); bad += 1
sys.exit(1 if bad else 0)
