"""Tiny SP/IdP pair without xmlsec1 (crypto_backend='XMLSecurity' is constructed
lazily and never invoked for unsigned messages).  Used only to *demonstrate*
findings against the real code; no registered check imports this."""
import os, sys, tempfile, warnings, logging
warnings.simplefilter("ignore")
logging.disable(logging.CRITICAL)
from saml2_tophat import BINDING_HTTP_POST, BINDING_HTTP_REDIRECT, BINDING_SOAP
from saml2_tophat.config import SPConfig, IdPConfig
from saml2_tophat.metadata import entity_descriptor
from saml2_tophat.client import Saml2Client
from saml2_tophat.server import Server
from saml2_tophat.saml import NAMEID_FORMAT_TRANSIENT, NAME_FORMAT_URI
from saml2_tophat.authn_context import INTERNETPROTOCOLPASSWORD

TESTS = "/repo/tests"
SP_ID = "urn:example:sp"
IDP_ID = "urn:example:idp"
ACS = "https://sp.example.org/acs/post"
TMP = tempfile.mkdtemp(prefix="verif-demo-")


def sp_conf(metadata=None, **sp_extra):
    sp = {"endpoints": {"assertion_consumer_service": [(ACS, BINDING_HTTP_POST)],
                        "single_logout_service": [("https://sp.example.org/slo", BINDING_HTTP_REDIRECT)]},
          "want_response_signed": False, "want_assertions_signed": False,
          "allow_unsolicited": False}
    sp.update(sp_extra)
    c = {"entityid": SP_ID, "service": {"sp": sp},
         "key_file": TESTS + "/test.key", "cert_file": TESTS + "/test.pem",
         "crypto_backend": "XMLSecurity",
         "attribute_map_dir": TESTS + "/attributemaps",
         "metadata": metadata or []}
    return c


def idp_conf(metadata=None, policy=None, **idp_extra):
    idp = {"endpoints": {"single_sign_on_service": [("https://idp.example.org/sso", BINDING_HTTP_REDIRECT)],
                         "single_logout_service": [("https://idp.example.org/slo", BINDING_HTTP_REDIRECT)]},
           "policy": policy or {"default": {"lifetime": {"minutes": 15},
                                            "attribute_restrictions": None,
                                            "name_form": NAME_FORMAT_URI}},
           "subject_data": os.path.join(TMP, "subject.db"),
           "name": "demo idp"}
    idp.update(idp_extra)
    c = {"entityid": IDP_ID, "service": {"idp": idp},
         "key_file": TESTS + "/test.key", "cert_file": TESTS + "/test.pem",
         "crypto_backend": "XMLSecurity",
         "attribute_map_dir": TESTS + "/attributemaps",
         "metadata": metadata or []}
    return c


def md_of(conf_dict, cls):
    cnf = cls().load(dict(conf_dict, metadata=[]), metadata_construction=True)
    ed = entity_descriptor(cnf)
    path = os.path.join(TMP, "md-%s.xml" % abs(hash(conf_dict["entityid"])))
    with open(path, "w") as fh:
        fh.write(str(ed))
    return path


def pair(sp_kw=None, idp_kw=None, policy=None):
    sp_kw, idp_kw = sp_kw or {}, idp_kw or {}
    sp_md = md_of(sp_conf(**sp_kw), SPConfig)
    idp_md = md_of(idp_conf(policy=policy, **idp_kw), IdPConfig)
    mdspec = lambda p: [{"class": "saml2_tophat.mdstore.MetaDataFile", "metadata": [(p,)]}]
    spc = SPConfig().load(sp_conf(metadata=mdspec(idp_md), **sp_kw))
    idc = IdPConfig().load(idp_conf(metadata=mdspec(sp_md), policy=policy, **idp_kw))
    return Saml2Client(config=spc), Server(config=idc)


AUTHN = {"class_ref": INTERNETPROTOCOLPASSWORD, "authn_auth": "http://idp.example.org/login"}


def make_response(idp, in_response_to="id-1", identity=None, **kw):
    identity = identity or {"givenName": ["Ada"], "surName": ["Lovelace"], "mail": ["ada@example.org"]}
    args = dict(identity=identity, in_response_to=in_response_to, destination=ACS,
                sp_entity_id=SP_ID, userid="ada", authn=AUTHN,
                name_id_policy=None, sign_response=False, sign_assertion=False)
    args.update(kw)
    return idp.create_authn_response(**args)


def b64(resp):
    import base64
    return base64.b64encode(str(resp).encode("utf-8"))
