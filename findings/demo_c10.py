"""C10 demonstrations. demo_c10.py f07|f08 ; exit 1 = request accepted (defect)."""
import sys
sys.path.insert(0, "/verif/findings")
from harness import *
which = sys.argv[1]

if which == "f07":
    # The IdP publishes its SSO endpoint for HTTP-Redirect only.  A request that
    # arrives over HTTP-POST and is addressed (Destination) to a different IdP
    # is accepted, because the destination test is skipped whenever the list of
    # own endpoints for (service, binding) is empty.
    import base64
    sp, idp = pair()
    rid, req = sp.create_authn_request("https://some-other-idp.example.com/sso",
                                       binding=BINDING_HTTP_POST)
    assert 'Destination="https://some-other-idp.example.com/sso"' in str(req)
    enc = base64.b64encode(str(req).encode())
    try:
        r = idp.parse_authn_request(enc, BINDING_HTTP_POST)
    except Exception as e:
        print("rejected: %s: %s" % (type(e).__name__, e)); sys.exit(0)
    if r is None:
        print("rejected: None"); sys.exit(0)
    print("ACCEPTED request with Destination=%s; own endpoints for this binding: %s" % (
        r.message.destination, idp.config.endpoint("single_sign_on_service", BINDING_HTTP_POST, "idp")))
    sys.exit(1)
elif which == "f08":
    # want_authn_requests_only_with_valid_cert: a signature that does NOT verify
    # is accepted (`if verified or only_valid_cert:`).  Stub backend = a
    # verifier that reports "invalid" for everything.
    from saml2_tophat import samlp, saml, sigver
    from saml2_tophat.sigver import SecurityContext, CryptoBackend, pre_signature_part
    class NeverValid(CryptoBackend):
        def validate_signature(self, *a, **kw):
            return False
    class MD(object):
        def certs(self, *a): return [("x", "/dev/null")]
    req = samlp.AuthnRequest(id="r1", version="2.0", issue_instant="2026-01-01T00:00:00Z",
                             issuer=saml.Issuer(text="urn:sp"))
    req.signature = pre_signature_part("r1")
    sec = SecurityContext(NeverValid(), metadata=MD())
    try:
        r = sec.correctly_signed_authn_request(str(req), must=True, only_valid_cert=True)
    except sigver.SigverError as e:
        print("rejected: %s: %s" % (type(e).__name__, e)); sys.exit(0)
    print("ACCEPTED signed request id=%s although no certificate verified its signature" % r.id)
    sys.exit(1)
