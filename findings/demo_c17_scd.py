"""F14 (C17.R5): the SubjectConfirmationData/@InResponseTo of an assertion that
only becomes visible after decryption is never compared with the request.
xmlsec1 is absent: the stub backend 'decrypts' by returning the prepared clear
form of the response (EncryptedAssertion holding the Assertion as child, which is
exactly what decryption produces).  exit 1 = accepted (defect present)."""
import sys
sys.path.insert(0, "/verif/findings")
from harness import *
from saml2_tophat import samlp, saml
from saml2_tophat import xmlenc as xenc
from saml2_tophat.sigver import pre_encrypt_assertion, CryptoBackend
import copy

sp, idp = pair()
resp = samlp.response_from_string(str(make_response(idp)))
# the encrypted assertion names a DIFFERENT request than the response
resp.assertion[0].subject.subject_confirmation[0].subject_confirmation_data.in_response_to = "some-other-request"
clear = pre_encrypt_assertion(copy.deepcopy(resp))            # what decryption yields
wire = copy.deepcopy(resp)
wire.assertion = []
wire.encrypted_assertion = [saml.EncryptedAssertion(encrypted_data=xenc.EncryptedData(
    cipher_data=xenc.CipherData(cipher_value=xenc.CipherValue(text="AAAA"))))]

class StubDecrypt(CryptoBackend):
    def decrypt(self, enctext, key_file, id_attr):
        return str(clear)
sp.sec.crypto = StubDecrypt()
sp.sec.enc_key_files = ["/repo/tests/test.key"]
try:
    r = sp.parse_authn_request_response(b64(wire), BINDING_HTTP_POST, outstanding={"id-1": "/"})
except Exception as e:
    print("rejected: %s: %s" % (type(e).__name__, e)); sys.exit(0)
if r is None or not r.assertions:
    print("rejected / no identity"); sys.exit(0)
print("ACCEPTED: response InResponseTo=%s, decrypted bearer confirmation names %s, identity %s" % (
    r.in_response_to,
    r.assertion.subject.subject_confirmation[0].subject_confirmation_data.in_response_to, r.ava))
sys.exit(1)
