"""C16 demonstrations.  demo_c16.py f12|f13|f17 ; exit 1 = defect present."""
import sys, os, warnings, logging
warnings.simplefilter("ignore"); logging.disable(logging.CRITICAL)
sys.path.insert(0, "/verif/findings")
which = sys.argv[1]
from saml2_tophat.mdstore import MetadataStore, MetaDataFile
from saml2_tophat.attribute_converter import ac_factory
from saml2_tophat.config import Config as _Config
def Config():
    c = _Config(); c.crypto_backend = "XMLSecurity"; return c
from saml2_tophat import BINDING_HTTP_REDIRECT, BINDING_SOAP
ATTRC = ac_factory("/repo/tests/attributemaps")
import tempfile
TMP = tempfile.mkdtemp(prefix="verif-demo-")

def write(name, text):
    p = os.path.join(TMP, name)
    open(p, "w").write(text); return p

if which == "f17":
    mds = MetadataStore(ATTRC, Config())
    mds.imp([{"class": "saml2_tophat.mdstore.MetaDataFile", "metadata": [("/repo/tests/idp_aa.xml",)]}])
    declared = [e for e, d in mds.items() if "attribute_authority_descriptor" in d]
    print("entities declaring an AttributeAuthorityDescriptor:", declared)
    print("attribute_authorities():", mds.attribute_authorities())
    sys.exit(0 if sorted(mds.attribute_authorities()) == sorted(declared) and declared else 1)

MD = """<?xml version="1.0"?>
<md:EntityDescriptor xmlns:md="urn:oasis:names:tc:SAML:2.0:metadata" entityID="urn:old:idp" validUntil="%s">
 <md:IDPSSODescriptor protocolSupportEnumeration="urn:oasis:names:tc:SAML:2.0:protocol">
  <md:SingleSignOnService Binding="urn:oasis:names:tc:SAML:2.0:bindings:HTTP-Redirect" Location="https://old.example.org/sso"/>
 </md:IDPSSODescriptor>
</md:EntityDescriptor>"""

if which == "f12":
    served = {}
    for label, vu in (("Z-spelled, year 2000", "2000-01-01T00:00:00Z"),
                      ("offset-spelled, year 2000", "2000-01-01T00:00:00+00:00")):
        mds = MetadataStore(ATTRC, Config())
        mds.imp([{"class": "saml2_tophat.mdstore.MetaDataFile",
                  "metadata": [(write("old-%d.xml" % len(served), MD % vu),)]}])
        try:
            served[label] = mds.single_sign_on_service("urn:old:idp", BINDING_HTTP_REDIRECT)[0]["location"]
        except Exception as e:
            served[label] = "not served (%s)" % type(e).__name__
        print("validUntil %-28s -> %s" % (label, served[label]))
    sys.exit(1 if any(v.startswith("https") for v in served.values()) else 0)

if which == "f13":
    from saml2_tophat.sigver import SecurityContext, CryptoBackend
    class ReportsInvalid(CryptoBackend):      # what CryptoBackendXMLSecurity does
        def validate_signature(self, *a, **kw):
            return False
    signed = (MD % "2999-01-01T00:00:00Z").replace(
        "<md:IDPSSODescriptor",
        '<ds:Signature xmlns:ds="http://www.w3.org/2000/09/xmldsig#"><ds:SignedInfo>'
        '<ds:CanonicalizationMethod Algorithm="http://www.w3.org/2001/10/xml-exc-c14n#"/>'
        '<ds:SignatureMethod Algorithm="http://www.w3.org/2000/09/xmldsig#rsa-sha1"/>'
        '<ds:Reference URI=""><ds:DigestMethod Algorithm="http://www.w3.org/2000/09/xmldsig#sha1"/>'
        '<ds:DigestValue>AAAA</ds:DigestValue></ds:Reference></ds:SignedInfo>'
        '<ds:SignatureValue>AAAA</ds:SignatureValue></ds:Signature><md:IDPSSODescriptor', 1)
    mds = MetadataStore(ATTRC, Config())
    mds.security = SecurityContext(ReportsInvalid())
    # old-style spec: ("local", file, cert) -> MetaDataFile(..., cert=...)
    mds.load("local", write("signed.xml", signed), cert="/repo/tests/test.pem",
             security=mds.security) if False else None
    md = MetaDataFile(ATTRC, write("signed.xml", signed), cert="/repo/tests/test.pem",
                      security=mds.security)
    print("MetaDataFile.load() ->", md.load())
    # what MetadataStore.load/imp do with that result:
    mds.metadata["signed.xml"] = md
    try:
        loc = mds.single_sign_on_service("urn:old:idp", BINDING_HTTP_REDIRECT)[0]["location"]
        print("entity from metadata whose signature did NOT verify is served:", loc)
        sys.exit(1)
    except Exception as e:
        print("not served:", type(e).__name__); sys.exit(0)
