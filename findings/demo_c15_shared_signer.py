"""F11 (C15.R1): RSACrypto.get_signer hands every entity the same module-level
signer object and overwrites its key.  History: A obtains its signer, B obtains
its signer, A signs -> A's URL is signed with B's key.  exit 1 = defect."""
import sys, warnings
warnings.simplefilter("ignore")
from saml2_tophat.sigver import RSACrypto, import_rsa_key_from_file, verify_redirect_signature, read_cert_from_file
from saml2_tophat.xmldsig import SIG_RSA_SHA256
from saml2_tophat import pack
import urllib.parse as up
T = "/repo/tests/"
ka = import_rsa_key_from_file(T + "test.key")
kb = import_rsa_key_from_file(T + "test_1.key")
A, B = RSACrypto(ka), RSACrypto(kb)
sa = A.get_signer(SIG_RSA_SHA256)
sb = B.get_signer(SIG_RSA_SHA256)          # B asks for its signer in between
info = pack.http_redirect_message("<x/>", "https://idp.example.org/sso", "rs",
                                  "SAMLRequest", sigalg=SIG_RSA_SHA256, signer=sa)
url = dict(info["headers"])["Location"]
q = {k: v[0] for k, v in up.parse_qs(up.urlparse(url).query).items()}
cert_a = read_cert_from_file(T + "test.pem", "pem")
cert_b = read_cert_from_file(T + "test_1.crt", "pem")
ok_a = verify_redirect_signature(dict(q), RSACrypto(None), cert_a)
ok_b = verify_redirect_signature(dict(q), RSACrypto(None), cert_b)
print("same object handed to both entities:", sa is sb)
print("A's URL verifies under A's certificate:", ok_a, "| under B's certificate:", ok_b)
sys.exit(0 if (ok_a and not ok_b) else 1)
