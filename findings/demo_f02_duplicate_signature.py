"""F02 (C01.R4): a repeated <ds:Signature> child silently replaces the earlier one
in the parsed object, while xmlsec1 (--node-id) verifies the first Signature it
finds below the node.  So the Signature whose Reference pysaml2 inspects (the
last) need not be the one that is cryptographically verified (the first).
xmlsec1 is absent here; the stub backend reproduces its documented choice: it
reports success iff the FIRST Signature in document order under the node is the
genuine one.  Exit 1 = the forged element is accepted (defect present)."""
import re, sys
from saml2_tophat import samlp, saml, sigver
from saml2_tophat.sigver import SecurityContext, CryptoBackend, pre_signature_part

class FirstSignatureStub(CryptoBackend):
    def validate_signature(self, signedtext, cert_file, cert_type, node_name,
                           node_id, id_attr):
        first = re.search(r'Reference URI="([^"]*)"', signedtext).group(1)
        return first == "#genuine"      # the embedded, really signed element

class MD(object):
    def certs(self, *a): return [("x", "/dev/null")]

resp = samlp.Response(id="evil", version="2.0",
                      issue_instant="2026-01-01T00:00:00Z",
                      issuer=saml.Issuer(text="urn:idp"))
resp.signature = pre_signature_part("evil")
xml = str(resp)
genuine_sig = str(pre_signature_part("genuine"))
# put the genuine Signature (Reference #genuine) before the forged one
xml = xml.replace("<ns2:Signature>", genuine_sig + "<ns2:Signature>", 1)
assert xml.count("SignatureValue /") == 2
parsed = samlp.response_from_string(xml)
print("Signature elements in document:", xml.count("SignatureValue /"))
print("pysaml2 inspects reference:", parsed.signature.signed_info.reference[0].uri)
sec = SecurityContext(FirstSignatureStub(), metadata=MD())
try:
    r = sec.correctly_signed_response(xml)
except sigver.SignatureError as e:
    print("rejected:", e); sys.exit(0)
print("ACCEPTED id=%s although the verified Signature covers #genuine" % r.id)
sys.exit(1)
