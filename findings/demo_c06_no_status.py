"""C06: a Response without any <Status> element is accepted (status_ok() returns
True when self.response.status is falsy, and schema validation does not require
the child because StatusResponseType_ declares no cardinality for it).
exit 1 = accepted (defect present)."""
import sys
sys.path.insert(0, "/verif/findings")
from harness import *
from saml2_tophat import samlp
sp, idp = pair()
r = samlp.response_from_string(str(make_response(idp)))
r.status = None
assert "Status" not in str(r)
try:
    res = sp.parse_authn_request_response(b64(r), BINDING_HTTP_POST, outstanding={"id-1": "/"})
except Exception as e:
    print("rejected: %s: %s" % (type(e).__name__, e)); sys.exit(0)
if res is None:
    print("rejected: None"); sys.exit(0)
print("ACCEPTED a response with no Status element; identity:", res.ava)
sys.exit(1)
