"""F01 (C01.R3): _check_signature accepted a Signature whose Reference names a
different element.  xmlsec1 is absent in this sandbox, so the backend is a stub
that answers "signature valid" (what xmlsec1 answers for any intact same-document
reference); the point is what pysaml2 itself accepts.
Exit 0 = rejected (fixed), exit 1 = accepted (defect present)."""
import sys
from saml2_tophat import samlp, saml, sigver
from saml2_tophat.sigver import SecurityContext, CryptoBackend, pre_signature_part

class Stub(CryptoBackend):
    def validate_signature(self, *a, **kw):
        return True

class MD(object):
    def certs(self, *a):
        return [("x", "/dev/null")]
    def __bool__(self):
        return True

resp = samlp.Response(id="evil", version="2.0", issue_instant="2026-01-01T00:00:00Z",
                      issuer=saml.Issuer(text="urn:idp"))
resp.signature = pre_signature_part("some-other-element")   # Reference URI="#some-other-element"
xml = str(resp)
sec = SecurityContext(Stub(), metadata=MD())
try:
    r = sec.correctly_signed_response(xml)
except sigver.SignatureError as e:
    print("rejected:", e)
    sys.exit(0)
print("ACCEPTED element id=%s whose signature references %s" % (
    r.id, r.signature.signed_info.reference[0].uri))
sys.exit(1)
