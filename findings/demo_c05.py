"""C05 demonstrations against the real code (no xmlsec needed: unsigned flows).
Usage: demo_c05.py f03|f04|f18   exit 1 = accepted (defect present), 0 = rejected."""
import sys
sys.path.insert(0, "/verif/findings")
from harness import *
from saml2_tophat import samlp, saml

which = sys.argv[1]


def tamper(resp, fn):
    r = samlp.response_from_string(str(resp))
    fn(r)
    return r


def parse(sp, resp, outstanding):
    try:
        r = sp.parse_authn_request_response(b64(resp), BINDING_HTTP_POST,
                                            outstanding=outstanding)
    except Exception as e:
        print("rejected: %s: %s" % (type(e).__name__, e))
        return None
    if r is None:
        print("rejected: None")
    return r

if which == "f04":
    sp, idp = pair()
    def edit(r):
        a = r.assertion[0]
        a.conditions.audience_restriction.append(saml.AudienceRestriction(
            audience=[saml.Audience(text="urn:example:some-other-sp")]))
    resp = tamper(make_response(idp), edit)
    r = parse(sp, resp, {"id-1": "/"})
    if r:
        print("ACCEPTED: assertion with AudienceRestrictions %s" % [
            [a.text for a in ar.audience]
            for ar in r.assertion.conditions.audience_restriction])
        sys.exit(1)
elif which == "f03":
    sp, idp = pair(sp_kw={"allow_unsolicited": True})
    def edit(r):
        for ar in r.assertion[0].conditions.audience_restriction:
            for a in ar.audience:
                a.text = "urn:example:some-other-sp"
    resp = tamper(make_response(idp), edit)
    r = parse(sp, resp, {"id-1": "/"})
    if r:
        print("ACCEPTED (allow_unsolicited on): audience %s, I am %s" % (
            [a.text for ar in r.assertion.conditions.audience_restriction
             for a in ar.audience], SP_ID))
        sys.exit(1)
elif which == "f18":
    sp, idp = pair()
    def edit(r):
        subj = r.assertion[0].subject
        good = subj.subject_confirmation[0]
        good.subject_confirmation_data.in_response_to = "some-other-request"
        first = saml.SubjectConfirmation(method=saml.SCM_BEARER)  # no data
        subj.subject_confirmation = [first, good]
    resp = tamper(make_response(idp), edit)
    r = parse(sp, resp, {"id-1": "/"})
    if r:
        print("ACCEPTED: response InResponseTo=id-1, bearer confirmation names %s" % [
            sc.subject_confirmation_data.in_response_to
            for sc in r.assertion.subject.subject_confirmation])
        sys.exit(1)
sys.exit(0)
