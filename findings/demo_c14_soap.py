"""C14: SOAP round trip of an AuthzDecisionQuery: apply_binding(SOAP) packs it,
unravel(SOAP, 'authz_decision_query') has no decoder.  exit 1 = defect."""
import sys, warnings
warnings.simplefilter("ignore")
from saml2_tophat import samlp, saml, BINDING_SOAP
from saml2_tophat.entity import Entity
from saml2_tophat.pack import make_soap_enveloped_saml_thingy
from saml2_tophat.request import AuthzDecisionQuery
from saml2_tophat.response import AuthzResponse
q = samlp.AuthzDecisionQuery(id="q1", version="2.0", issue_instant="2026-01-01T00:00:00Z",
                             resource="urn:r", action=[saml.Action(text="read")])
env = make_soap_enveloped_saml_thingy(q)
bad = 0
for cls in (AuthzDecisionQuery, AuthzResponse):
    try:
        out = Entity.unravel(env if cls is AuthzDecisionQuery else
                             make_soap_enveloped_saml_thingy(samlp.Response(id="r", version="2.0", issue_instant="2026-01-01T00:00:00Z")),
                             BINDING_SOAP, cls.msgtype)
        print(cls.msgtype, "decoded:", out[:60])
    except Exception as e:
        print(cls.msgtype, "->", type(e).__name__, e); bad += 1
sys.exit(1 if bad else 0)
